"""Generic wrapper turning a *judge* (mc/monitors.py) into a complete E1
check module: plan / run_shard / coverage / vacuity / replay."""

from __future__ import annotations

import numpy as np

from mc import explorer as E
from mc import monitors as M
from mc import ops as OPS

D3_OPS = [
    "sl_1_4", "sl_s2", "sl_rev", "ix_1", "sl2_a", "tk_201", "add1", "add_row", "T", "rs_m1", "exp0", "flip0",
    "cat_parts", "stack0", "rc2", "rc_all", "rc3", "sum0", "mean_se2", "argmax0", "cumsum0", "swv2_sum", "swv3_max", "diff", "mb_double", "bcast",
]


def std_sources(tier):
    S = []
    if tier == "quick":
        for c in [(6,), (2, 1, 3), (1, 1, 1, 1, 1, 1), (4, 2), (3, 3)]:
            S.append(E.src((6,), (c,)))
        for c0, c1 in [((3,), (4,)), ((1, 2), (2, 2)), ((2, 1), (1, 3)), ((1, 1, 1), (3, 1))]:
            S.append(E.src((3, 4), (c0, c1)))
        S.append(E.src((1,), ((1,),)))
        S.append(E.src((0,), ((0,),)))
        S.append(E.src((2, 3, 2), ((1, 1), (2, 1), (2,))))
        S.append(E.src((6,), ((2, 2, 2),), "i8"))
    else:
        # every 5th chunking of (6,) and of (3,4) (the quick tier's hand-picked
        # ones are in there), plus edge shapes and other dtypes
        S += [s for i, s in enumerate(E.sources_1d(6)) if i % 5 == 0 or tuple(s["chunks"][0]) in ((2, 1, 3), (4, 2), (3, 3))]
        S += [s for i, s in enumerate(E.sources_2d((3, 4))) if i % 5 == 0 or (tuple(s["chunks"][0]), tuple(s["chunks"][1])) in (((1, 2), (2, 2)), ((2, 1), (1, 3)), ((1, 1, 1), (3, 1)))]
        for shp, ch in [((0,), ((0,),)), ((1,), ((1,),)), ((0, 3), ((0,), (1, 2))), ((1, 4), ((1,), (2, 2))), ((2, 3, 2), ((1, 1), (2, 1), (2,))), ((2, 3, 2), ((2,), (1, 1, 1), (1, 1))), ((4, 4), ((2, 2), (1, 3)))]:
            S.append(E.src(shp, ch))
        for c in [(6,), (2, 1, 3), (3, 3), (1, 2, 2, 1)]:
            S.append(E.src((6,), (c,), "i8"))
        S.append(E.src((3, 4), ((1, 2), (2, 2)), "i8"))
        # (complex / float32 / bool sources are not part of the E1 space: their
        # result-dtype conventions were never adjudicated op by op; C18 covers
        # these dtypes for the reductions)
    return S


def make(prop, judge, *, quick, thorough, rule, assumptions, nontrivial=None, floors=None, tagged_sig=True):
    """Build the module-level functions of an E1 check.

    quick/thorough: callables (seed) -> (shards, bounds dict)
    nontrivial: (ctx) -> bool ; floors: {counter: minimum}
    """

    def monitor(ctx):
        out = ctx.out
        out.count("evaluations")
        nt = nontrivial(ctx) if nontrivial else (any(M.nblocks(d) > 1 for d in ctx.dpool) and bool(ctx.case["steps"]))
        if nt:
            out.count("nontrivial")
        exact, cd = ctx.exact, ctx.check_dtype
        try:
            j = judge(ctx.y, ctx.ref, exact, cd, out)
        except NotImplementedError:
            j = ("refused", "", "")
        if j is None:
            return []
        kind, tag, msg = j
        if kind == "refused":
            out.count("refused_at_compute")
            out.dcount("refused_by_type", "NotImplementedError@compute:" + E.op_path(ctx.case).split(">")[-1])
            return []

        def again(y2, ref2):
            try:
                j2 = judge(y2, ref2, exact, cd, None)
            except NotImplementedError:
                return False
            return j2 is not None and j2[0] == kind and j2[1] == tag

        if kind.endswith("-not-idempotent"):
            # the node-type delta of the second pass identifies the cause; the
            # op path that exposes it is incidental
            sig = f"{kind}:{tag}"
        else:
            path = E.minimal_path(ctx, again)
            sig = f"{kind}:{tag + ':' if tag else ''}{path}"
        return [{"kind": kind, "signature": sig, "detail": msg}]

    def plan(tier, seed):
        shards, bounds = (quick if tier == "quick" else thorough)(seed)
        return {
            "shards": shards,
            "coverage": {"bounds": bounds, "exhaustive": True, "rule": rule},
            "assumptions": list(assumptions),
        }

    def run_shard(shard):
        return E.Explorer(shard, monitor).run().result()

    def coverage(agg, plan):
        c = agg.counters
        return {
            "states": len(agg.sets.get("state_keys", ())),
            "transitions": c["transitions"],
            "traces_validated_against_impl": c["evaluations"],
            "evaluations": c["evaluations"],
            "distinct_nontrivial": c["nontrivial"],
        }

    def vacuity(agg, plan):
        c = agg.counters
        v = []
        fl = {"evaluations": 500, "nontrivial": 100}
        fl.update(floors or {})
        for k, m in fl.items():
            if c[k] < m:
                v.append(f"coverage counter {k}={c[k]} below floor {m}")
        return v

    def replay(case):
        return E.replay_program(case, monitor)

    return {"PROPERTY": prop, "monitor": monitor, "plan": plan, "run_shard": run_shard, "coverage": coverage, "vacuity": vacuity, "replay": replay}


ML_OPS = ["b_add", "b_mul", "b_cat", "b_cat1", "tk_201", "tk_2302", "tk_m1_0", "tk2_ax1", "sl_1_4", "sl2_a", "mb_demean_chunks", "sum0", "rc2", "T"]
ML4Q_OPS = ["b_add", "tk_201", "tk_2302", "mb_demean_chunks"]
ML4_OPS = ["b_add", "b_cat1", "tk_201", "tk_2302", "tk_m1_0", "mb_demean_chunks", "sl_1_4"]


def ml_sources(tier):
    """Pools with three leaves of the same shape under different chunkings:
    the only way several differently-chunked leaves meet in one expression."""
    S = [dict(E.src((4, 3), ((4,), (2, 1))), leaves=[((1, 2, 1), (1, 2)), ((1, 3), (1, 2))])]
    if tier != "quick":
        S.append(dict(E.src((5, 2), ((1, 4), (2,))), leaves=[((1, 3, 1), (1, 1)), ((1, 1, 2, 1), (2,))]))
        S.append(dict(E.src((6,), ((2, 1, 3),)), leaves=[((3, 3),), ((1, 1, 1, 1, 1, 1),)]))
    return S


def ml_shards(tier):
    S = ml_sources(tier)
    ops3 = OPS.subset(names=ML_OPS)
    shards = E.plan_shards(S, ops3, 3)
    bounds = {"multi_leaf_depth3": {"ops": len(ops3), "sources": len(S)}}
    if tier != "quick":
        ops4 = OPS.subset(names=ML4_OPS)
        shards += E.plan_shards(S[:1], ops4, 4)
        bounds["multi_leaf_depth4"] = {"ops": len(ops4), "sources": 1}
    else:
        # nested elemwise of three differently chunked leaves under a take and a
        # grid-sensitive consumer needs depth 4; compact alphabet in quick
        ops4 = OPS.subset(names=ML4Q_OPS)
        shards += E.plan_shards(S[:1], ops4, 4)
        bounds["multi_leaf_depth4"] = {"ops": len(ops4), "sources": 1}
    return shards, bounds


def std_quick(ops=None, depth=2, sources=None, ml=True):
    def f(seed):
        S = sources or std_sources("quick")
        o = ops or OPS.REWRITE
        shards, bounds = E.plan_shards(S, o, depth), {"depth": depth, "ops": len(o), "sources": len(S)}
        if ml:
            s2, b2 = ml_shards("quick")
            shards += s2
            bounds.update(b2)
        return shards, bounds

    return f


def std_thorough(ops=None, d3=True, sources=None):
    def f(seed):
        S = sources or std_sources("thorough")
        o = ops or OPS.ALL
        shards = E.plan_shards(S, o, 2)
        bounds = {"depth2": {"ops": len(o), "sources": len(S)}}
        if d3:
            d3ops = OPS.subset(names=D3_OPS)
            S3 = [s for i, s in enumerate(S) if i % 6 == 0][:5]
            shards += E.plan_shards(S3, d3ops, 3, binary=False)
            bounds["depth3"] = {"ops": len(d3ops), "sources": len(S3), "binary_ops": False}
        s2, b2 = ml_shards("thorough")
        shards += s2
        bounds.update(b2)
        return shards, bounds

    return f
