"""E1 — explicit-state program explorer over the real API (DESIGN §3.1/3.4).

A *state* is the pool of collections a history has built (source first); a
*transition* applies one op of the alphabet to operands drawn from the pool
(at least one operand is the newest node, so every program is generated once
as the ancestry DAG of its root).  Every new node is evaluated step-wise in
NumPy too, so each node has a known NumPy denotation.  States are
de-duplicated by a structural hash of the raw expression trees — never by
dask's own ``_name`` (that would assume C06).
"""

from __future__ import annotations

import hashlib
import itertools
import warnings

import numpy as np

from mc import ops as OPS
from mc.common import ShardOut

warnings.filterwarnings("ignore")


# --------------------------------------------------------------------------
# sources


def make_source(rec):
    """rec: {"shape": [..], "chunks": [[..],..], "dtype": "f8", "offset": 10}
    Returns (numpy value, dask array)."""
    import dask_array as da

    if rec.get("random"):
        # a random array is its own source: one realization, computed once
        x = eval(rec["random"], {"da": da, "np": np})
        a = np.asarray(x.compute(scheduler="sync"))
        return a, x
    shape = tuple(rec["shape"])
    n = int(np.prod(shape)) if shape else 1
    base = np.arange(n).reshape(shape) + rec.get("offset", 10)
    dt = np.dtype(rec.get("dtype", "f8"))
    if dt.kind == "b":
        a = (base % 3 == 0).reshape(shape)
    elif dt.kind == "c":
        a = (base + 1j * (base[..., ::-1] if base.ndim else base)).astype(dt)
    else:
        a = base.astype(dt)
    if rec.get("nan"):
        a = a.astype("f8")
        flat = a.reshape(-1)
        for i in rec["nan"]:
            if i < flat.size:
                flat[i] = np.nan
    chunks = tuple(tuple(c) for c in rec["chunks"])
    if rec.get("recsource"):
        from mc import userfns

        x = da.from_array(userfns.RecSource(a), chunks=chunks, **rec.get("from_array_kwargs", {}))
    else:
        x = da.from_array(a, chunks=chunks)
    return a, x


def make_pool(rec):
    """Initial pool of a program: the source, plus (rec['leaves']) further
    leaves of the same shape with other chunkings and other values."""
    import dask_array as da

    a, x = make_source(rec)
    npool, dpool = [a], [x]
    for k, ch in enumerate(rec.get("leaves", []), start=1):
        b = a + (100 * k if a.dtype.kind != "b" else 0)
        npool.append(b)
        dpool.append(da.from_array(b, chunks=tuple(tuple(c) for c in ch)))
    return npool, dpool


def source_src(rec):
    if rec.get("random"):
        return f"x0 = {rec['random']}\nn0 = np.asarray(x0.compute(scheduler='sync'))\na = n0"
    shape = tuple(rec["shape"])
    dt = rec.get("dtype", "f8")
    lines = [f"_n = int(np.prod({shape!r})) if {shape!r} else 1", f"_base = np.arange(_n).reshape({shape!r}) + {rec.get('offset', 10)}"]
    k = np.dtype(dt).kind
    if k == "b":
        lines.append("a = (_base % 3 == 0)")
    elif k == "c":
        lines.append(f"a = (_base + 1j * (_base[..., ::-1] if _base.ndim else _base)).astype({dt!r})")
    else:
        lines.append(f"a = _base.astype({dt!r})")
    if rec.get("nan"):
        lines.append("a = a.astype('f8'); _f = a.reshape(-1)")
        lines.append(f"for _i in {list(rec['nan'])!r}:\n    if _i < _f.size: _f[_i] = np.nan")
    if rec.get("recsource"):
        lines.append(f"x0 = da.from_array(uf.RecSource(a), chunks={tuple(tuple(c) for c in rec['chunks'])!r}, **{rec.get('from_array_kwargs', {})!r})")
    else:
        lines.append(f"x0 = da.from_array(a, chunks={tuple(tuple(c) for c in rec['chunks'])!r})")
    lines.append("n0 = a")
    for k, ch in enumerate(rec.get("leaves", []), start=1):
        lines.append(f"n{k} = a + {100 * k}")
        lines.append(f"x{k} = da.from_array(n{k}, chunks={tuple(tuple(c) for c in ch)!r})")
    return "\n".join(lines)


# --------------------------------------------------------------------------
# structural hash


def _h(*parts):
    m = hashlib.sha1()
    for p in parts:
        m.update(p if isinstance(p, bytes) else str(p).encode())
        m.update(b"|")
    return m.digest()[:12]


def structkey(o, memo=None):
    """Hash of the *structure* of an expression / operand: type names,
    non-expression operands by value, children recursively."""
    from dask._expr import Expr

    if memo is None:
        memo = {}
    if isinstance(o, Expr):
        i = id(o)
        r = memo.get(i)
        if r is None:
            r = _h(b"E", type(o).__module__, type(o).__qualname__, *[structkey(x, memo) for x in o.operands])
            memo[i] = r
        return r
    if hasattr(o, "_expr") and hasattr(o, "__dask_keys__"):
        return structkey(o._expr, memo)
    if isinstance(o, np.ndarray):
        if o.dtype == object:
            return _h(b"O", o.shape, *[structkey(x, memo) for x in o.reshape(-1).tolist()])
        return _h(b"A", o.dtype.str, o.shape, np.ascontiguousarray(o).tobytes())
    if isinstance(o, (list, tuple)):
        return _h(b"L" if isinstance(o, list) else b"T", *[structkey(x, memo) for x in o])
    if isinstance(o, dict):
        items = sorted(((structkey(k, memo), structkey(v, memo)) for k, v in o.items()))
        return _h(b"D", *[a + b for a, b in items])
    if isinstance(o, (set, frozenset)):
        return _h(b"S", *sorted(structkey(x, memo) for x in o))
    if isinstance(o, slice):
        return _h(b"sl", structkey(o.start, memo), structkey(o.stop, memo), structkey(o.step, memo))
    if isinstance(o, (np.generic,)):
        return _h(b"g", o.dtype.str, repr(o.item()))
    if isinstance(o, float) and o != o:
        return _h(b"nan")
    if isinstance(o, (int, float, str, bool, bytes, complex, type(None), np.dtype)) or o is Ellipsis:
        return _h(type(o).__name__, repr(o))
    import functools

    if isinstance(o, functools.partial):
        return _h(b"P", structkey(o.func, memo), structkey(o.args, memo), structkey(o.keywords, memo))
    if callable(o):
        mod = getattr(o, "__module__", "") or ""
        qn = getattr(o, "__qualname__", None) or getattr(o, "__name__", None)
        if qn and "<lambda>" not in qn and "<locals>" not in qn:
            return _h(b"F", mod, qn)
        if qn:
            code = getattr(o, "__code__", None)
            return _h(b"Fl", mod, qn, code.co_code if code else b"", repr(getattr(code, "co_consts", "")))
        return _h(b"C", type(o).__module__, type(o).__qualname__, _stable_repr(o))
    return _h(b"R", type(o).__module__, type(o).__qualname__, _stable_repr(o))


def _stable_repr(o):
    import re

    try:
        r = repr(o)
    except Exception:
        r = "?"
    return re.sub(r"0x[0-9a-f]+", "0x", r)[:400]


# --------------------------------------------------------------------------
# comparison oracle


def _as_np(v):
    return v if isinstance(v, np.ndarray) else np.asarray(v)


def compare(val, ref, exact=True, dtype=True, rtol=1e-9, atol=1e-11):
    """Return None if equal else (kind, message)."""
    v = _as_np(val)
    r = _as_np(ref)
    if isinstance(v, np.ma.MaskedArray) or isinstance(r, np.ma.MaskedArray):
        # masked results: same mask, same values where not masked (the data
        # under the mask is unspecified)
        if v.shape != r.shape:
            return ("shape", f"shape {v.shape} != numpy {r.shape}")
        mv, mr = np.ma.getmaskarray(v), np.ma.getmaskarray(r)
        if not np.array_equal(mv, mr):
            return ("value", f"masks differ: got {_short(mv)} numpy {_short(mr)}")
        fill = 0 if v.dtype.kind in "biufc" else None
        if fill is not None:
            v = np.where(mv, fill, np.ma.getdata(v))
            r = np.where(mr, fill, np.ma.getdata(r))
    if v.shape != r.shape:
        return ("shape", f"shape {v.shape} != numpy {r.shape}")
    if dtype and v.dtype != r.dtype:
        return ("dtype", f"dtype {v.dtype} != numpy {r.dtype}")
    if v.size == 0:
        return None
    try:
        if exact and v.dtype.kind in "biu?SU" :
            ok = np.array_equal(v, r)
        elif exact:
            ok = np.array_equal(v, r, equal_nan=True)
        else:
            if r.dtype == np.float32 or v.dtype == np.float32:
                rtol, atol = 1e-4, 1e-5
            ok = np.allclose(v, r, rtol=rtol, atol=atol, equal_nan=True)
    except TypeError:
        ok = np.array_equal(v, r)
    if not ok:
        return ("value", f"values differ: got {_short(v)} numpy {_short(r)}")
    return None


def _short(a):
    s = np.array2string(np.asarray(a), threshold=40, precision=6, separator=",")
    return s.replace("\n", "")[:300]


# --------------------------------------------------------------------------
# program build / replay


def build_program(case, upto=None, strict=False):
    """Rebuild a recorded program.  Returns (pool_dask, pool_numpy).  With
    ``strict`` an op outside its applicability condition raises (programs that
    were not recorded by the explorer, which filters on the condition)."""
    import dask_array as da

    npool, dpool = make_pool(case["source"])
    for opname, idxs in case["steps"][: upto if upto is not None else len(case["steps"])]:
        op = OPS.BY_NAME[opname]
        if strict and not op.applies(*[npool[i] for i in idxs]):
            raise ValueError(f"op {opname} does not apply to these operands")
        _set_ch(dpool, idxs)
        nv = op.numpy(*[npool[i] for i in idxs])
        dv = op.dask(da, *[dpool[i] for i in idxs])
        dpool.append(dv)
        npool.append(nv)
    return dpool, npool


def _set_ch(dpool, idxs):
    """Expose the operands' advertised chunks to block-layout dependent
    NumPy references (mc/userfns.py: CH)."""
    from mc import userfns

    ch = []
    for i in idxs:
        try:
            ch.append(dpool[i].chunks)
        except Exception:
            ch.append(None)
    userfns.CH = ch


def program_script(case, tail=""):
    """Stand-alone reproduction script for a program case."""
    import inspect

    from mc import userfns

    lines = ["import numpy as np", "import dask", "import dask_array as da", "", "# ---- helper functions (mc/userfns.py)", "class uf:", "    pass", ""]
    src = inspect.getsource(userfns)
    body = src.split("import numpy as np", 1)[1]
    lines.append(body.strip("\n"))
    lines.append("for _k, _v in list(globals().items()):\n    if callable(_v) and not _k.startswith('_') and _k not in ('np','da','dask','uf'):\n        setattr(uf, _k, staticmethod(_v))")
    lines.append("")
    if case.get("config"):
        lines.append(f"dask.config.set({case['config']!r})")
    lines.append(source_src(case["source"]))
    nl = len(case["source"].get("leaves", []))
    for k, (opname, idxs) in enumerate(case["steps"], start=1 + nl):
        op = OPS.BY_NAME[opname]
        lines.append(f"x{k} = " + op.src([f"x{i}" for i in idxs], dask=True))
        lines.append("uf.CH = [" + ", ".join(f"x{i}.chunks" for i in idxs) + "]")
        lines.append(f"n{k} = " + op.src([f"n{i}" for i in idxs], dask=False))
    k = len(case["steps"]) + nl
    lines.append(f"y, ref = x{k}, np.asarray(n{k})")
    lines.append(tail or "val = np.asarray(y.compute(scheduler='sync'))\nprint('dask :', val.shape, val.dtype, val)\nprint('numpy:', ref.shape, ref.dtype, ref)\nassert val.shape == ref.shape and np.allclose(val, ref, equal_nan=True), 'MISMATCH'")
    return "\n".join(lines) + "\n"


def op_path(case):
    """Op-name path of a program, the value-failure signature: 'a>b>c'."""
    return ">".join(s[0] for s in case["steps"]) or "source"


def minimal_path(ctx, fails_again):
    """Signature path for a failure at the newest node.  The parents were
    already verified, so the defect involves the last op; if the last op alone
    fails the same way on a plain single-chunk copy of its NumPy operands the
    path is just that op, otherwise the whole op path."""
    import dask_array as da

    steps = ctx.case["steps"]
    if not steps:
        return "source"
    opname, idxs = steps[-1]
    if len(steps) == 1:
        return opname
    op = OPS.BY_NAME[opname]
    if "uf.CH" in op.nsrc:
        return op_path(ctx.case)
    try:
        xs = [da.from_array(np.array(ctx.npool[i]), chunks=-1) for i in idxs]
        y = op.dask(da, *xs)
        if fails_again(y, ctx.npool[-1]):
            return opname + "@anyinput"
    except Exception:
        pass
    # does it need the actual layout? try the same NumPy operands with the parent's chunks
    return op_path(ctx.case)


def prog_str(case):
    if case["source"].get("random"):
        s = f"src[{case['source']['random']}]"
    else:
        s = f"src{tuple(case['source']['shape'])}/{tuple(tuple(c) for c in case['source']['chunks'])}/{case['source'].get('dtype', 'f8')}"
    for k, ch in enumerate(case["source"].get("leaves", []), start=1):
        s += f" x{k}=leaf{tuple(tuple(c) for c in ch)}"
    for opname, idxs in case["steps"]:
        s += f" ; {opname}({','.join('x%d' % i for i in idxs)})"
    return s


# --------------------------------------------------------------------------
# the explorer


REFUSAL_TYPES = (NotImplementedError,)


class Explorer:
    """Depth-bounded exhaustive DFS over programs from one source with a
    fixed first step (the shard).  ``monitor(ctx) -> list of failures``."""

    def __init__(self, shard, monitor, out=None):
        import dask_array as da

        self.da = da
        self.shard = shard
        self.monitor = monitor
        self.out = out or ShardOut()
        self.ops = [OPS.BY_NAME[n] for n in shard["ops"]]
        self.depth = shard["depth"]
        self.binary = shard.get("binary", True)
        self.seen_nodes = set()
        self.bad_nodes = set()
        self.seen_pools = {}
        self.max_size = shard.get("max_size", 400)
        self.max_ndim = shard.get("max_ndim", 4)

    def run(self):
        src = self.shard["source"]
        npool, dpool = make_pool(src)
        steps = []
        keys = [structkey(d) for d in dpool]
        first = self.shard.get("first")
        if first is None:
            # depth-0 node itself is monitored once (by the shard with first=None)
            self._visit(src, steps, dpool, npool, keys, is_new=True)
            return self.out
        self._expand(src, steps, dpool, npool, keys, self.depth, only=first)
        return self.out

    def _transitions(self, npool, only=None):
        last = len(npool) - 1
        for op in self.ops:
            if only is not None and op.name != only:
                continue
            if op.arity == 1:
                yield op, (last,)
            elif self.binary:
                for i in range(len(npool)):
                    yield op, (i, last)
                    if i != last:
                        yield op, (last, i)

    def _expand(self, src, steps, dpool, npool, keys, remaining, only=None):
        if remaining <= 0:
            return
        out = self.out
        for op, idxs in self._transitions(npool, only):
            nargs = [npool[i] for i in idxs]
            if not op.applies(*nargs):
                continue
            try:
                _set_ch(dpool, idxs)
                with np.errstate(all="ignore"):
                    nv = op.numpy(*nargs)
            except Exception:
                out.count("numpy_refused")
                continue
            nv = np.asarray(nv) if not isinstance(nv, np.ndarray) else nv
            if nv.size > self.max_size or nv.ndim > self.max_ndim:
                out.count("pruned_too_large")
                continue
            out.count("transitions")
            step = [op.name, list(idxs)]
            try:
                dv = op.dask(self.da, *[dpool[i] for i in idxs])
            except REFUSAL_TYPES as e:
                out.count("refused")
                out.dcount("refused_by_type", f"{type(e).__name__}:{op.name}")
                continue
            except Exception as e:
                case = {"source": src, "steps": steps + [step]}
                out.fail(
                    {
                        "kind": "construct-raise",
                        "signature": f"construct-raise:{exc_sig(e)}:{op.name}" + ("+zerosize" if any(np.size(npool[i]) == 0 for i in idxs) else ""),
                        "case": case,
                        "detail": f"{prog_str(case)}\n NumPy evaluates this program but dask_array raised at construction: {type(e).__name__}: {str(e)[:300]}",
                        "script": program_script(case),
                    }
                )
                continue
            k = structkey(dv)
            steps.append(step)
            dpool.append(dv)
            npool.append(nv)
            keys.append(k)
            is_new = k not in self.seen_nodes
            ok = True
            if is_new:
                self.seen_nodes.add(k)
                ok = self._visit(src, steps, dpool, npool, keys, is_new=True)
                if not ok:
                    self.bad_nodes.add(k)
                    out.count("not_expanded_after_failure")
            else:
                out.count("duplicate_states")
                ok = k not in self.bad_nodes
            if isinstance(nv, np.ma.MaskedArray):
                # NumPy's own functions treat masks ad hoc (np.concatenate,
                # np.matmul, ... drop or ignore them), so a masked result is a
                # leaf of the program space: judged, never extended
                out.count("masked_results_not_extended")
                ok = False
            if remaining > 1 and ok:
                pk = _h(*keys)
                if self.seen_pools.get(pk, 0) < remaining - 1:
                    self.seen_pools[pk] = remaining - 1
                    self._expand(src, steps, dpool, npool, keys, remaining - 1)
            steps.pop()
            dpool.pop()
            npool.pop()
            keys.pop()

    def _visit(self, src, steps, dpool, npool, keys, is_new):
        out = self.out
        out.count("states")
        out.sadd("state_keys", keys[-1])
        case = {"source": src, "steps": [list(map(_copy, s)) for s in steps]}
        ctx = Ctx(case, dpool[-1], npool[-1], dpool, npool, out, [OPS.BY_NAME[s[0]] for s in steps])
        try:
            fails = self.monitor(ctx) or []
        except _HarnessBug:
            raise
        for f in fails:
            f.setdefault("case", case)
            f.setdefault("script", program_script(case))
            f["detail"] = prog_str(case) + "\n " + f.get("detail", "")
            out.fail(f)
        if len(steps) == self.depth and steps:
            out.sample(prog_str(case), cap=2)
        return not fails


class _HarnessBug(Exception):
    pass


def _copy(x):
    return list(x) if isinstance(x, list) else x


class Ctx:
    __slots__ = ("case", "y", "ref", "dpool", "npool", "out", "oplist")

    def __init__(self, case, y, ref, dpool, npool, out, oplist):
        self.case = case
        self.y = y
        self.ref = ref
        self.dpool = dpool
        self.npool = npool
        self.out = out
        self.oplist = oplist

    @property
    def exact(self):
        return all(o.exact for o in self.oplist)

    @property
    def check_dtype(self):
        return all(o.dtype for o in self.oplist)


def _where(e):
    """Innermost /repo frame of an exception: 'file:function'."""
    import os
    import traceback

    tb = traceback.extract_tb(e.__traceback__)
    for fr in reversed(tb):
        fn = fr.filename
        if "dask_array" in fn and "/tests/" not in fn:
            return f"{os.path.basename(fn)}:{fr.name}"
    for fr in reversed(tb):
        if "/dask/" in fr.filename:
            return f"dask/{os.path.basename(fr.filename)}:{fr.name}"
    return "?"


def exc_sig(e):
    return f"{type(e).__name__}@{_where(e)}"


def replay_program(case, monitor):
    """Re-run one recorded program case under ``monitor``; construction
    failures are reproduced with the same signature the explorer gives."""
    import dask_array as da

    npool, dpool = make_pool(case["source"])
    for k, (opname, idxs) in enumerate(case["steps"]):
        op = OPS.BY_NAME[opname]
        _set_ch(dpool, idxs)
        with np.errstate(all="ignore"):
            nv = op.numpy(*[npool[i] for i in idxs])
        try:
            dv = op.dask(da, *[dpool[i] for i in idxs])
        except REFUSAL_TYPES:
            return None
        except Exception as e:
            return {"kind": "construct-raise", "signature": f"construct-raise:{exc_sig(e)}:{op.name}" + ("+zerosize" if any(np.size(npool[i]) == 0 for i in idxs) else ""), "detail": f"{prog_str(case)}\n dask_array raised at construction: {type(e).__name__}: {str(e)[:300]}"}
        dpool.append(dv)
        npool.append(np.asarray(nv) if not isinstance(nv, np.ndarray) else nv)
    out = ShardOut()
    ctx = Ctx(case, dpool[-1], npool[-1], dpool, npool, out, [OPS.BY_NAME[s[0]] for s in case["steps"]])
    fails = monitor(ctx) or []
    for f in fails:
        f["detail"] = prog_str(case) + "\n " + f.get("detail", "")
    return fails[0] if fails else None


# --------------------------------------------------------------------------
# standard source families


def src(shape, chunks, dtype="f8", **kw):
    d = {"shape": list(shape), "chunks": [list(c) for c in chunks], "dtype": dtype}
    d.update(kw)
    return d


def sources_1d(n, dtype="f8"):
    from mc.domains import compositions

    return [src((n,), (c,), dtype) for c in compositions(n)]


def sources_2d(shape, dtype="f8"):
    from mc.domains import compositions

    return [src(shape, (c0, c1), dtype) for c0 in compositions(shape[0]) for c1 in compositions(shape[1])]


def plan_shards(sources, ops, depth, binary=True, extra=None):
    shards = []
    names = [o.name for o in ops]
    for s in sources:
        shards.append({"source": s, "first": None, "ops": names, "depth": depth, "binary": binary, **(extra or {})})
        for o in ops:
            shards.append({"source": s, "first": o.name, "ops": names, "depth": depth, "binary": binary, **(extra or {})})
    return shards
