"""C20 — map_blocks block_info/block_id match the layout it was built against (E1)."""

from __future__ import annotations

import itertools

import numpy as np

from mc import casecheck as CC
from mc import explorer as E
from mc import userfns
from mc.domains import compositions

PRE_1D = {
    "id": ("x", "a"),
    "rechunk2": ("x.rechunk(2)", "a"),
    "rechunk_all": ("x.rechunk(-1)", "a"),
    "slice": ("x[1:]", "a[1:]"),
    "step": ("x[::2]", "a[::2]"),
    "rev": ("x[::-1]", "a[::-1]"),
    "cat": ("da.concatenate([x, x + 1])", "np.concatenate([a, a + 1])"),
    "catparts": ("da.concatenate([x[:2], x[2:] * 2])", "np.concatenate([a[:2], a[2:] * 2])"),
    "take": ("x[[2, 0, 1, 1]]", "a[[2, 0, 1, 1]]"),
    "elem_y": ("x + da.from_array(np.arange(x.shape[0]) * 1.0, chunks=3)", "a + np.arange(a.shape[0]) * 1.0"),
    "swv_sum": ("da.sliding_window_view(x, 2, axis=0).sum(axis=-1)", "np.lib.stride_tricks.sliding_window_view(a, 2, axis=0).sum(axis=-1)"),
    "swv3_max": ("da.sliding_window_view(x, 3, axis=0).max(axis=-1)", "np.lib.stride_tricks.sliding_window_view(a, 3, axis=0).max(axis=-1)"),
    "cumsum": ("da.cumsum(x, axis=0)", "np.cumsum(a, axis=0)"),
    "reshape": ("x.reshape(2, -1)", "a.reshape(2, -1)"),
    "bcast": ("da.broadcast_to(x, (2,) + x.shape)", "np.broadcast_to(a, (2,) + a.shape)"),
    "elem_take": ("(x + x[::-1])[[2, 0, 1]]", "(a + a[::-1])[[2, 0, 1]]"),
    "take_rev_slice": ("x[[5, 4, 3, 2, 1, 0]][2:]", "a[[5, 4, 3, 2, 1, 0]][2:]"),
    "take_rev_slice2": ("x[[5, 4, 3, 2, 1, 0]][1:5]", "a[[5, 4, 3, 2, 1, 0]][1:5]"),
    "take_perm_slice": ("x[[3, 2, 1, 0, 5, 4]][2:6]", "a[[3, 2, 1, 0, 5, 4]][2:6]"),
    "take_dup_slice": ("x[[2, 0, 1, 1, 4]][1:]", "a[[2, 0, 1, 1, 4]][1:]"),
    "slice_take": ("x[1:][[4, 3, 2, 1, 0]]", "a[1:][[4, 3, 2, 1, 0]]"),
    "take_rechunk": ("x[[5, 4, 3, 2, 1, 0]].rechunk(4)", "a[[5, 4, 3, 2, 1, 0]]"),
    "diff": ("da.diff(x)", "np.diff(a)"),
    "roll": ("da.roll(x, 2)", "np.roll(a, 2)"),
}
PRE_2D = {
    "id": ("x", "a"),
    "T": ("x.T", "a.T"),
    "rechunk": ("x.rechunk((2, 3))", "a"),
    "slice": ("x[1:, ::2]", "a[1:, ::2]"),
    "cat1": ("da.concatenate([x, x + 1], axis=1)", "np.concatenate([a, a + 1], axis=1)"),
    "take": ("x[[2, 0, 1]]", "a[[2, 0, 1]]"),
    "take1": ("x[:, [1, 0]]", "a[:, [1, 0]]"),
    "elem_row": ("x + x[:1]", "a + a[:1]"),
    "swv_sum": ("da.sliding_window_view(x, 2, axis=0).sum(axis=-1)", "np.lib.stride_tricks.sliding_window_view(a, 2, axis=0).sum(axis=-1)"),
    "sum0": ("x.sum(axis=0)", "a.sum(axis=0)"),
    "ravel": ("x.ravel()", "a.ravel()"),
    "take_rev_slice": ("x[[2, 1, 0]][1:]", "a[[2, 1, 0]][1:]"),
    "take1_slice": ("x[:, [3, 2, 1, 0]][:, 1:]", "a[:, [3, 2, 1, 0]][:, 1:]"),
    "elem3_take": ("((x + x.rechunk((1, 4))) + x.rechunk((3, 1)))[[2, 0, 1, 0]]", "((a + a) + a)[[2, 0, 1, 0]]"),
}
POST = {
    "id": ("{m}", "{n}"),
    "slice": ("{m}[1:]", "{n}[1:]"),
    "rev": ("{m}[::-1]", "{n}[::-1]"),
    "last": ("{m}[-1:]", "{n}[-1:]"),
    "rechunk": ("{m}.rechunk(3)", "{n}"),
    "sum": ("{m}.sum()", "{n}.sum()"),
    "plus": ("{m} + {p}", "{n} + {pn}"),
    "take": ("{m}[[1, 0]]", "{n}[[1, 0]]"),
    "cat": ("da.concatenate([{m}, {m}])", "np.concatenate([{n}, {n}])"),
}
FNS = {
    "info": ("da.map_blocks(uf.rec_info, {p}, dtype='f8')", "{pn}"),
    "id": ("da.map_blocks(uf.rec_id, {p}, dtype='f8')", "{pn}"),
    "both": ("da.map_blocks(uf.rec_both, {p}, dtype='f8')", "{pn}"),
    "info_chunks": ("da.map_blocks(uf.rec_info, {p}, dtype='f8', chunks=({p}).chunks)", "{pn}"),
    "method": ("({p}).map_blocks(uf.rec_info, dtype='f8')", "{pn}"),
    "two": ("da.map_blocks(uf.rec_two, {p}, {p} * 2, dtype='f8')", "{pn} + {pn} * 2"),
    "newaxis": ("da.map_blocks(uf.rec_newaxis, {p}, dtype='f8', new_axis=0)", "{pn}[None]"),
    # a plain function (no block_info) whose values depend on where the block
    # boundaries are: the reference applies it per block of the layout that
    # pre(x) advertises
    "demean": ("da.map_blocks(uf.demean0, {p}, dtype='f8')", "uf.np_blockmap(uf.demean0, {pn}, ({p}).chunks)"),
    "demean_chunks": ("da.map_blocks(uf.demean0, {p}, dtype='f8', chunks=({p}).chunks)", "uf.np_blockmap(uf.demean0, {pn}, ({p}).chunks)"),
}
PLAIN_POST = ("id", "sum", "rechunk", "plus")


def _cases(src, pres, nd):
    for pname, (p, pn) in pres.items():
        for fname, (f, fnn) in FNS.items():
            m = f.format(p=p)
            n = fnn.format(pn=pn, p=p)
            for qname, (q, qn) in POST.items():
                if fname == "newaxis" and qname in ("plus",):
                    continue
                if fname.startswith("demean") and qname not in PLAIN_POST:
                    continue  # slices above a plain map_blocks: KF-MAPBLOCKS-SLICE-PUSHDOWN
                expr = q.format(m="(" + m + ")", p="(" + p + ")")
                nexpr = qn.format(n="(" + n + ")", pn="(" + pn + ")")
                yield {"source": src, "expr": expr, "nexpr": nexpr, "label": f"{pname}>{fname}>{qname}", "pre": p, "fn": fname, "exact": False, "np_raises_must_raise": False, "may_refuse": ["ValueError", "IndexError"] if qname in ("take", "slice", "last") else []}
    # drop_axis on 2-D inputs
    if nd == 2:
        for pname, (p, pn) in pres.items():
            yield {"source": src, "expr": f"da.map_blocks(uf.rec_dropaxis, ({p}).rechunk({{0: -1}}), dtype='f8', drop_axis=0)", "nexpr": f"({pn}).sum(axis=0)", "label": f"{pname}>dropaxis>id", "pre": f"({p}).rechunk({{0: -1}})", "fn": "info", "exact": False, "np_raises_must_raise": False, "may_refuse": ["ValueError"]}


QUICK_PERMS = [(1, 0, 2, 4, 3, 5), (4, 3, 5, 0, 2, 1), (0, 1, 5, 2, 4, 3), (5, 4, 3, 2, 1, 0), (2, 0, 1, 5, 3, 4), (3, 5, 4, 1, 0, 2)]
SWEEP_SLICES = [(3, 6), (1, 5), (1, 6), (2, 6), (0, 3), (0, 4), (2, 5)]


def _takeslice_cases(shard):
    """A slice on top of a take on the same axis, consumed by a block-dependent
    function: every permutation index (thorough) x slices x every chunking."""
    src = E.src((6,), (tuple(shard["chunks"][0]),))
    perms = QUICK_PERMS if shard["tier"] == "quick" else list(itertools.permutations(range(6)))[shard["part"] :: shard["parts"]]
    for idx in perms:
        for i, j in SWEEP_SLICES[:2] if shard["tier"] == "quick" else SWEEP_SLICES:
            p, pn = f"x[{list(idx)}][{i}:{j}]", f"a[{list(idx)}][{i}:{j}]"
            f, fnn = FNS["demean"]
            yield {"source": src, "expr": f.format(p=p), "nexpr": fnn.format(pn=pn, p=p), "label": "take-slice-sweep>demean>id", "pre": p, "fn": "demean", "exact": False, "np_raises_must_raise": False, "may_refuse": []}


def _swvsweep_cases(shard):
    """Windowed reductions (whose rewrite may settle on another layout with the
    SAME number of blocks) below a block_info consumer, on longer axes: every
    chunking of n = 7, 8."""
    src = E.src((shard["n"],), (tuple(shard["chunks"][0]),))
    for w in (2, 3):
        for red in ("sum", "max"):
            p = f"da.sliding_window_view(x, {w}, axis=0).{red}(axis=-1)"
            pn = f"np.lib.stride_tricks.sliding_window_view(a, {w}, axis=0).{red}(axis=-1)"
            for fname in ("info", "both"):
                f, fnn = FNS[fname]
                yield {"source": src, "expr": f.format(p=p), "nexpr": fnn.format(pn=pn, p=p), "label": f"swvsweep{w}-{red}>{fname}>id", "pre": p, "fn": fname, "exact": False, "np_raises_must_raise": False, "may_refuse": []}


def _mixed_rank_cases(src, shape):
    """Two inputs of different rank (2-d x, 1-d v on x's last axis) under
    drop_axis: block_info of the lower-rank input must describe the block of v
    the function actually receives."""
    m = shape[1]
    # map_blocks does not align its inputs (blocks are matched by position, a
    # single block broadcasts): v gets x's chunking of the shared axis
    for vch in [tuple(src["chunks"][1])]:
        v = f"da.from_array(np.arange({m}) + 100.0, chunks=({vch!r},))"
        yield {"source": src, "expr": f"da.map_blocks(uf.rec_two_mixed0, x, {v}, dtype='f8', drop_axis=0)", "nexpr": f"a.sum(axis=0) + (np.arange({m}) + 100.0)", "label": "mixed-rank>drop0>id", "pre": "x", "fn": "mixed", "exact": False, "np_raises_must_raise": False, "may_refuse": ["ValueError"]}
        yield {"source": src, "expr": f"da.map_blocks(uf.rec_two_mixed1, x, {v}, dtype='f8', drop_axis=1)", "nexpr": f"a.sum(axis=1) + (np.arange({m}) + 100.0).sum()", "label": "mixed-rank>drop1>id", "pre": "x", "fn": "mixed", "exact": False, "np_raises_must_raise": False, "may_refuse": ["ValueError"]}


def gen_cases(shard):
    if shard.get("what") == "takeslice":
        yield from _takeslice_cases(shard)
        return
    if shard.get("what") == "swvsweep":
        yield from _swvsweep_cases(shard)
        return
    src = E.src(tuple(shard["shape"]), tuple(tuple(c) for c in shard["chunks"]))
    nd = len(shard["shape"])
    yield from _cases(src, PRE_1D if nd == 1 else PRE_2D, nd)
    if nd == 2:
        yield from _mixed_rank_cases(src, tuple(shard["shape"]))


def plan_shards(tier):
    shards = []
    chs = compositions(6)
    for c in chs if tier != "quick" else chs[::5]:
        shards.append({"shape": [6], "chunks": [list(c)]})
    c2 = list(itertools.product(compositions(3), compositions(4)))
    for c in c2 if tier != "quick" else c2[::7]:
        shards.append({"shape": [3, 4], "chunks": [list(k) for k in c]})
    for n in (7, 8):
        cn = compositions(n)
        for k in range(0, len(cn), 16):
            for c in cn[k : k + 16]:
                shards.append({"what": "swvsweep", "n": n, "shape": [n], "chunks": [list(c)]})
    parts = 1 if tier == "quick" else 4
    for c in chs:
        for part in range(parts):
            shards.append({"what": "takeslice", "shape": [6], "chunks": [list(c)], "tier": tier, "part": part, "parts": parts})
    return shards


def _extra(case, y, val, ref, a, x):
    """Inside the user function: every invocation saw the layout that the
    input advertised when map_blocks was called, and a block of that shape."""
    import dask_array as da

    env = {"x": x, "da": da, "np": np, "uf": userfns}
    p = eval(case["pre"], env)
    chunks = p.chunks
    if any(isinstance(s, float) and s != s for c in chunks for s in c):
        return None
    offs = [np.concatenate([[0], np.cumsum(c)]).astype(int) for c in chunks]
    nb = tuple(len(c) for c in chunks)
    userfns.LOG.clear()
    y.compute(scheduler="sync")
    log = list(userfns.LOG)
    userfns.LOG.clear()
    if case["fn"].startswith("demean"):
        return None  # judged by value: the reference is per block of pre(x).chunks
    if not log and np.size(ref) > 0:
        return ("never-called", "the recording function was never invoked on a non-empty block")
    for e in log:
        if e["kind"] == "mixed":
            ext0 = tuple(hi - lo for lo, hi in e["aloc"])
            ext1 = tuple(hi - lo for lo, hi in e["aloc1"])
            if e["bshape"] != ext0:
                return ("mixed-first-input", f"first input block has shape {e['bshape']} but block_info[0] array-location {e['aloc']}")
            if e["cbshape"] != ext1:
                return ("mixed-second-input", f"lower-rank input block has shape {e['cbshape']} but block_info[1] array-location {e['aloc1']} (num-chunks {e['nchunks1']}, chunk-location {e['loc1']})")
            if e["c0"] != 100.0 + e["aloc1"][0][0]:
                return ("mixed-second-location", f"lower-rank input block starts with value {e['c0']} but block_info[1] array-location says it starts at index {e['aloc1'][0][0]}")
            continue
        loc = e["loc"]
        if len(loc) != len(nb) or any(not (0 <= i < n) for i, n in zip(loc, nb)):
            return ("bad-location", f"chunk-location/block_id {loc} outside the advertised grid {nb} (chunks {chunks})")
        want_shape = tuple(chunks[ax][i] for ax, i in enumerate(loc))
        if e["bshape"] != want_shape:
            return ("block-shape", f"block at {loc} has shape {e['bshape']}, the layout advertised at call time says {want_shape} (chunks {chunks})")
        if e["kind"] in ("info", "both", "two"):
            if e["cshape"] != want_shape:
                return ("chunk-shape", f"block_info chunk-shape {e['cshape']} at {loc} != advertised {want_shape}")
            want_aloc = [(int(offs[ax][i]), int(offs[ax][i + 1])) for ax, i in enumerate(loc)]
            if e["aloc"] != want_aloc:
                return ("array-location", f"block_info array-location {e['aloc']} at {loc} != advertised {want_aloc} (chunks {chunks})")
            if e["nchunks"] != nb:
                return ("num-chunks", f"block_info num-chunks {e['nchunks']} != advertised {nb}")
            if e["shape"] != tuple(p.shape):
                return ("shape", f"block_info shape {e['shape']} != advertised {tuple(p.shape)}")
        if e["kind"] == "both" and e["id"] != loc:
            return ("block-id", f"block_id {e['id']} != block_info chunk-location {loc}")
        if e["kind"] == "two" and (e["loc1"] != loc or e["cshape1"] != want_shape or e["cbshape"] != want_shape):
            return ("second-input", f"second input at {loc}: location {e['loc1']} chunk-shape {e['cshape1']} block {e['cbshape']} vs advertised {want_shape}")
    return None


_m = CC.make(
    "C20", gen_cases, plan_shards,
    rule="programs post(map_blocks(rec_fn, pre(x))) for every pre in {identity, rechunks, slices, concatenate, take, elemwise of differently chunked leaves, sliding-window reductions, cumsum, reshape, broadcast_to, transpose, reductions, diff, roll} x rec_fn consuming block_info / block_id / both / with explicit chunks= / two inputs / two inputs of different rank under drop_axis=0/1 / new_axis / drop_axis x post in {identity, slices, rechunk, reduction, elemwise with a sibling, take, concatenate} over every chunking of (6,) and (3,4): inside the function every invocation's chunk-location, array-location, chunk-shape, num-chunks, shape and the shape of the block received equal the layout pre(x).chunks advertised at the call; values equal NumPy; plus windowed reductions (window 2, 3; sum, max) below a block_info consumer for every chunking of n = 7, 8; plus a sweep map_blocks(block-dependent fn, x[perm][i:j]) over every chunking of (6,) x permutation indices (6 in quick, all 720 in thorough) x slices. Non-trivial = multi-block source",
    assumptions=["calls on empty blocks (meta inference) are ignored", "blocks culled by a slice above need not be invoked; every invocation must be consistent"],
    floors={"accepted": 1500},
    extra=_extra,
)
globals().update(_m)
