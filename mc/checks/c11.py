"""C11 — in-place operations only change the array they are applied to (E4).

Stateless enumeration of ALL event histories up to length L over a live
interpreter state (x, the collections derived from it so far, the source
array).  After every history the invariant is evaluated: every pool member
computes to its reference value (copy semantics at derivation), x's keys and
to_delayed() agree with x.compute(), and the source arrays are untouched.
Every prefix is itself a history of the space, so the invariant is checked in
every reachable state.
"""

from __future__ import annotations

import itertools

import numpy as np

from mc import explorer as E
from mc import graphx as G
from mc.common import ShardOut
from mc.sched import fingerprint

PROPERTY = "C11"


# ---- event alphabet ---------------------------------------------------------
# each event: (name, kind, dask_fn(state), numpy_fn(state)) expressed as source
# strings evaluated over: x (dask), r (numpy ref of x), da, np


def _events(shape):
    nd = len(shape)
    ev = []

    def derive(name, dexpr, nexpr=None):
        ev.append({"name": name, "kind": "derive", "d": dexpr, "n": nexpr or dexpr.replace("x", "r").replace("da.", "np.")})

    def mutate(name, dstmt, nstmt):
        ev.append({"name": name, "kind": "mutate", "d": dstmt, "n": nstmt})

    def touch(name, dstmt):
        ev.append({"name": name, "kind": "touch", "d": dstmt, "n": None})

    derive("d_slice", "x[1:3]")
    derive("d_rev", "x[::-1]")
    derive("d_add", "x + 1")
    derive("d_sum", "x.sum()")
    derive("d_T", "x.T")
    derive("d_rechunk", "x.rechunk(2)", "r")
    derive("d_copy", "x.copy()", "r.copy()")
    derive("d_mask", "x[x > 12]", "r[r > 12]")
    if nd == 2:
        derive("d_col", "x[:, 0]")

    def setitem(name, key, val, nkey=None, nval=None):
        mutate(name, f"x[{key}] = {val}", f"r[{nkey or key}] = {nval or val}")

    setitem("s_int", "1", "-1.0")
    setitem("s_negint", "-1", "-2.0")
    setitem("s_slice", "slice(1, 3)", "-3.0")
    setitem("s_step", "slice(None, None, 2)", "-4.0")
    setitem("s_negstep", "slice(None, None, -1)", "np.arange(x.shape[0], dtype=float).reshape((-1,) + (1,) * (x.ndim - 1)) * np.ones(x.shape[1:])", nval="np.arange(r.shape[0], dtype=float).reshape((-1,) + (1,) * (r.ndim - 1)) * np.ones(r.shape[1:])")
    # stepped slices with non-broadcast values: the value offset per block matters
    setitem("s_step_arr", "slice(1, None, 2)", "np.arange(len(range(1, x.shape[0], 2)), dtype=float).reshape((-1,) + (1,) * (x.ndim - 1)) * np.ones(x.shape[1:]) + 100", nval="np.arange(len(range(1, r.shape[0], 2)), dtype=float).reshape((-1,) + (1,) * (r.ndim - 1)) * np.ones(r.shape[1:]) + 100")
    setitem("s_step3_arr", "slice(0, None, 3)", "np.arange(len(range(0, x.shape[0], 3)), dtype=float).reshape((-1,) + (1,) * (x.ndim - 1)) * np.ones(x.shape[1:]) + 200", nval="np.arange(len(range(0, r.shape[0], 3)), dtype=float).reshape((-1,) + (1,) * (r.ndim - 1)) * np.ones(r.shape[1:]) + 200")
    setitem("s_negstep2_arr", "slice(None, None, -2)", "np.arange(len(range(x.shape[0] - 1, -1, -2)), dtype=float).reshape((-1,) + (1,) * (x.ndim - 1)) * np.ones(x.shape[1:]) + 300", nval="np.arange(len(range(r.shape[0] - 1, -1, -2)), dtype=float).reshape((-1,) + (1,) * (r.ndim - 1)) * np.ones(r.shape[1:]) + 300")
    setitem("s_list", "[0, -1]", "-5.0")
    setitem("s_ellipsis", "Ellipsis", "-6.0")
    setitem("s_npmask", "np.arange(x.shape[0]) % 2 == 0", "-7.0", nkey="np.arange(r.shape[0]) % 2 == 0")
    setitem("s_daskmask", "x > 12", "-8.0", nkey="r > 12")
    setitem("s_0d", "slice(0, 2)", "np.float64(-9.0)")
    setitem("s_daskval", "slice(0, 2)", "x[2:4] * 10", nval="r[2:4] * 10")
    setitem("s_fullshape", "Ellipsis", "np.arange(x.size, dtype=float).reshape(x.shape) + 100", nval="np.arange(r.size, dtype=float).reshape(r.shape) + 100")
    if nd == 2:
        setitem("s_tuple", "(0, slice(1, None))", "-10.0")
        setitem("s_row", "slice(None)", "np.array([1.0, 2.0, 3.0])[: x.shape[1]]", nval="np.array([1.0, 2.0, 3.0])[: r.shape[1]]")
        setitem("s_dask1dmask", "(slice(None), da.from_array(np.arange(x.shape[1]) % 2 == 0, chunks=1))", "-11.0", nkey="(slice(None), np.arange(r.shape[1]) % 2 == 0)")
    else:
        mutate("s_masked", "x[slice(1, 2)] = np.ma.masked", "r = np.ma.masked_array(r); r[slice(1, 2)] = np.ma.masked")
        setitem("s_daskint", "da.from_array(np.array([0, 2]), chunks=1)", "-12.0", nkey="np.array([0, 2])")
    # a dask index array / value array that outlives the assignment and is itself
    # updated in place afterwards: the earlier assignment must not change
    mutate("s_sharedidx", "x[kidx] = -13.0", "r[ridx] = -13.0")
    mutate("m_idx", "kidx[0] = 1", "ridx[0] = 1")
    mutate("s_sharedval", "x[0:2] = kval", "r[0:2] = rval")
    mutate("m_val", "kval[0] = -99.0", "rval[0] = -99.0")
    mutate("o_add", "np.add(x, 1, out=x)", "np.add(r, 1, out=r)")
    mutate("o_sin", "np.sin(x, out=x)", "np.sin(r, out=r)")
    mutate("o_where", "da.add(x, 1000, where=x > 12, out=x)", "np.add(r, 1000, where=r > 12, out=r)")
    mutate("o_iadd", "x += 2", "r += 2")
    touch("t_compute", "x.compute(scheduler='sync')")
    touch("t_keys", "x.__dask_keys__()")
    touch("t_graph", "x.__dask_graph__()")
    touch("t_delayed", "x.to_delayed()")
    touch("t_persist", "x.persist(scheduler='sync')")
    touch("t_pickle", "__import__('pickle').loads(__import__('pickle').dumps(x))")
    touch("t_derived_compute", "[d.compute(scheduler='sync') for d in derived]")
    return ev


def _masked_norm(v):
    if isinstance(v, np.ma.MaskedArray):
        return np.ma.filled(v.astype("f8"), -999.25)
    return v


def run_history(src, names, out=None):
    """Execute one history from the reset state; returns failure or None."""
    import dask_array as da

    a, x0 = E.make_source(src)
    a_user = a
    x = x0.copy() if False else x0
    # x is the collection the in-place ops are applied to; reference r is a copy
    r = a.copy()
    stored = [getattr(n, "array", None) for n in x.expr.walk()]
    stored = [s for s in stored if isinstance(s, np.ndarray)]
    fp_user = fingerprint(a_user)
    fp_stored = [fingerprint(s) for s in stored]
    evs = {e["name"]: e for e in _events(tuple(src["shape"]))}
    derived, drefs, dnames = [], [], []
    ridx = np.array([0, 2])[: max(1, min(2, a.shape[0]))] if a.ndim else np.array([0])
    rval = (np.arange(2.0)[: a.shape[0]].reshape((-1,) + (1,) * (a.ndim - 1)) * np.ones(a.shape[1:]) + 700) if a.ndim else np.array(700.0)
    env = {"da": da, "np": np, "x": x, "r": r, "derived": derived, "ridx": ridx.copy(), "kidx": da.from_array(ridx.copy(), chunks=1), "rval": rval.copy(), "kval": da.from_array(rval.copy(), chunks=1)}
    desc = []
    for nm in names:
        e = evs[nm]
        env["x"], env["r"] = x, r
        desc.append(e["d"])
        try:
            if e["kind"] in ("derive", "mutate"):
                # the reference model goes first: an event NumPy rejects is not
                # part of the history space
                try:
                    if e["kind"] == "derive":
                        ref = eval(e["n"], env)
                        ref = ref.copy() if isinstance(ref, np.ndarray) else np.array(ref, copy=True)
                    else:
                        exec(e["n"], env)
                        r = env["r"]
                except Exception:  # noqa: BLE001
                    return "invalid", None
            if e["kind"] == "derive":
                d = eval(e["d"], env)
                if d is x:
                    # a no-op derivation that returns the very same object is
                    # x itself (like a NumPy view), not another collection
                    if out is not None:
                        out.count("alias_derivations")
                    continue
                derived.append(d)
                drefs.append(ref)
                dnames.append(nm)
            elif e["kind"] == "mutate":
                exec(e["d"], env)
                x = env["x"]
            else:
                eval(e["d"], env)
        except NotImplementedError:
            return "refused", None
        except Exception as ex:  # noqa: BLE001
            return None, {"kind": "event-raise", "signature": f"event-raise:{nm}:{E.exc_sig(ex)}", "detail": f"event {e['d']} raised {type(ex).__name__}: {str(ex)[:200]}"}
    # ---- invariant
    def cmp(val, ref, what):
        val = _masked_norm(val)
        ref = _masked_norm(ref)
        bad = E.compare(val, ref, exact=False, dtype=False)
        if bad:
            return {"kind": "value", "signature": f"value:{what}", "detail": f"{what}: {bad[1]}"}
        return None

    try:
        f = cmp(x.compute(scheduler="sync"), r, "x-after-" + "+".join(n for n in names if evs[n]["kind"] == "mutate"))
        if f:
            return None, f
        for d, ref, nm in zip(derived, drefs, dnames):
            f = cmp(d.compute(scheduler="sync"), ref, f"derived:{nm}-then-" + "+".join(n for n in names[names.index(nm) + 1:] if evs[n]["kind"] == "mutate"))
            if f:
                return None, f
        for dn, rn in (("kidx", "ridx"), ("kval", "rval")):
            f = cmp(env[dn].compute(scheduler="sync"), env[rn], f"{dn}-after-" + "+".join(n for n in names if evs[n]["kind"] == "mutate"))
            if f:
                return None, f
        # name / keys / to_delayed consistent with the current expression
        if x.name != x.expr._name or G.flat_keys(x.__dask_keys__())[0][0] != x.name:
            return None, {"kind": "stale-keys", "signature": "stale-keys", "detail": f"x.name={x.name} keys[0]={G.flat_keys(x.__dask_keys__())[0]} expr name={x.expr._name}"}
        import dask

        blocks = dask.compute(*[b for b in np.asarray(x.to_delayed(), dtype=object).ravel().tolist()], scheduler="sync")
        whole = G.assemble(np.asarray(blocks + (None,), dtype=object)[:-1].reshape(x.numblocks).tolist()) if x.ndim else blocks[0]
        f = cmp(whole, r, "to_delayed-after-" + "+".join(n for n in names if evs[n]["kind"] != "derive"))
        if f:
            return None, f
    except NotImplementedError:
        return "refused", None
    except Exception as ex:  # noqa: BLE001
        muts = [n for n in names if evs[n]["kind"] == "mutate"]
        return None, {"kind": "check-raise", "signature": f"check-raise:{E.exc_sig(ex)}:{muts[-1] if muts else 'no-mutation'}", "detail": f"computing a pool member raised {type(ex).__name__}: {str(ex)[:200]}"}
    if fingerprint(a_user) != fp_user:
        return None, {"kind": "source-mutated", "signature": "source-mutated:user", "detail": "the user's source ndarray changed"}
    for s, fp in zip(stored, fp_stored):
        if fingerprint(s) != fp:
            return None, {"kind": "source-mutated", "signature": "source-mutated:stored", "detail": "the array stored in the from_array expression (shared by all collections derived from it) changed"}
    return "ok", None


def _hist_gen(shape, L, first):
    names = [e["name"] for e in _events(shape)]
    rest = [n for n in names]
    for k in range(0, L):
        for tail in itertools.product(rest, repeat=k):
            yield (first,) + tail


def plan(tier, seed):
    srcs = [E.src((6,), ((2, 1, 3),)), E.src((2, 3), ((1, 1), (2, 1)))]
    L = 3
    if tier != "quick":
        srcs += [E.src((4,), (c,)) for c in [(4,), (2, 2), (1, 3), (1, 1, 2)]] + [E.src((2, 3), ((2,), (3,))), E.src((2, 3), ((1, 1), (1, 1, 1)))]
    shards = []
    for s in srcs:
        for e in _events(tuple(s["shape"])):
            # quick tier: length 3 on the 1-D source, length 2 on the others
            shards.append({"source": s, "first": e["name"], "L": L if (tier != "quick" or len(s["shape"]) == 1) else 2, "tier": tier})
    # layout sweep: every mutating event on every chunking of (6,) and of (2,3)
    # (histories of length 1 in quick, 2 in thorough) -- which elements an
    # assignment writes must not depend on where the block boundaries fall
    from mc.domains import compositions

    sweep = [E.src((6,), (c,)) for c in compositions(6)] + [E.src((2, 3), (c0, c1)) for c0 in compositions(2) for c1 in compositions(3)]
    for s in sweep:
        for e in _events(tuple(s["shape"])):
            if e["kind"] == "mutate":
                shards.append({"source": s, "first": e["name"], "L": 1 if tier == "quick" else 2, "tier": tier, "sweep": True})
    if tier != "quick":
        # length 4 over a compact alphabet on one source
        for e in COMPACT:
            for e2 in COMPACT:
                shards.append({"source": srcs[0], "first": e, "second": e2, "L": 4, "compact": True, "tier": tier})
    return {
        "shards": shards,
        "coverage": {
            "exhaustive": True,
            "bounds": {"history_length": L, "events": len(_events((6,))), "sources": len(srcs), "length4_compact_alphabet": len(COMPACT) if tier != "quick" else 0},
            "rule": "all event histories of length <= L from the reset state over {derive (slice, reverse, elemwise, reduction, transpose, rechunk, copy, mask), x[kidx]=v / x[0:2]=kval with a dask index / value array that is itself updated in place later (kidx[0]=1, kval[0]=-99), x[key]=value for int / negative int / slice / stepped / negative-step / list / Ellipsis / NumPy mask / dask mask / dask int array / tuple keys x scalar / 0-d / row / full-shape / dask-array / masked values, ufunc out=x, where= with out=x, +=, compute / keys / graph / to_delayed / persist / pickle touches}; after each history every pool member computes to its reference, keys and to_delayed agree with compute, sources untouched; plus a layout sweep: every mutating event (history length 1 quick, 2 thorough) on every chunking of (6,) and (2,3). Non-trivial = history with a derivation before a mutation",
        },
        "assumptions": ["reference model: NumPy arrays with copy semantics at derivation", "synchronous scheduler"],
    }


COMPACT = ["d_slice", "d_copy", "d_add", "s_slice", "s_daskmask", "s_masked", "o_add", "o_where", "t_compute", "t_keys", "t_delayed"]


def run_shard(shard):
    out = ShardOut()
    src = shard["source"]
    shape = tuple(src["shape"])
    names = [e["name"] for e in _events(shape)]
    kinds = {e["name"]: e["kind"] for e in _events(shape)}
    if shard.get("compact"):
        hists = [(shard["first"], shard["second"]) + t for t in itertools.product(COMPACT, repeat=2)]
        hists = [h for h in hists if all(n in names for n in h)]
    else:
        hists = list(_hist_gen(shape, shard["L"], shard["first"]))
    for h in hists:
        if "s_masked" in h and any(kinds[n] != "touch" for n in h[h.index("s_masked") + 1:]):
            # NumPy itself gives masked arrays ad-hoc semantics under further
            # indexing/where/ufunc-out operations; the masked assignment is only
            # explored as the last state-changing event of a history
            out.count("skipped_masked_followups")
            continue
        out.count("evaluations")
        out.count("transitions", len(h))
        out.sadd("state_keys", hash((repr(src), h)))
        st, f = run_history(src, list(h), out)
        if st in ("refused", "invalid"):
            out.count(st)
            continue
        out.count("accepted")
        seen_derive = False
        nt = False
        for n in h:
            if kinds[n] == "derive":
                seen_derive = True
            elif kinds[n] == "mutate" and seen_derive:
                nt = True
        if nt:
            out.count("nontrivial")
        if f:
            f["case"] = {"source": src, "history": list(h)}
            f["detail"] = f"{E.prog_str({'source': src, 'steps': []})} history={list(h)}\n " + f["detail"]
            out.fail(f)
        elif nt and len(out.samples) < 1:
            out.sample({"source": src, "history": list(h)})
    return out.result()


def coverage(agg, plan):
    c = agg.counters
    return {"states": len(agg.sets.get("state_keys", ())), "transitions": c["transitions"], "traces_validated_against_impl": c["accepted"], "evaluations": c["evaluations"], "distinct_nontrivial": c["nontrivial"]}


def vacuity(agg, plan):
    c = agg.counters
    v = []
    if c["nontrivial"] < 500:
        v.append(f"only {c['nontrivial']} histories with a derivation before a mutation")
    return v


def replay(case):
    st, f = run_history(case["source"], case["history"])
    return f
