"""C12 — indexing follows NumPy for every supported index (E1, depth 1)."""

from __future__ import annotations

import itertools

import numpy as np

from mc import casecheck as CC
from mc import explorer as E
from mc.domains import chz, compositions, fmt_index, int_lists_1d, ints_1d, masks_1d, slices_1d


def _label1(idx):
    if isinstance(idx, slice):
        return "slice-neg" if (idx.step or 1) < 0 else "slice-pos"
    if isinstance(idx, (int, np.integer)):
        return "int"
    if idx is None:
        return "none"
    if idx is Ellipsis:
        return "ellipsis"
    if isinstance(idx, list):
        return "list"
    if isinstance(idx, np.ndarray):
        return "mask" if idx.dtype == bool else "intarray"
    return "other"


def _case(src, expr, label, **kw):
    c = {"source": src, "expr": expr, "label": label, "np_raises_must_raise": True}
    c.update(kw)
    return c


def _gen_1d(n, ch, zero):
    src = E.src((n,), (ch,))
    tag = "+zeroblock" if zero else ""
    idxs = list(ints_1d(n)) + slices_1d(n) + [None, Ellipsis, (None, Ellipsis), (Ellipsis, None), (slice(None), None)]
    for idx in idxs:
        yield _case(src, f"x[{fmt_index(idx)}]", (_label1(idx) if not isinstance(idx, tuple) else "none") + tag)
    if zero:
        return
    for l in int_lists_1d(n):
        yield _case(src, f"x[{l!r}]", "list")
        yield _case(src, f"x[np.array({l!r}, dtype=int)]", "intarray")
    for m in masks_1d(n):
        yield _case(src, f"x[{fmt_index(m)}]", "mask")
    # dask indexers under every chunking of the indexer (short indexers)
    for l in [[0], [n - 1, 0], [1, 1, 0], list(range(n))[::-1]] if n >= 2 else []:
        for ic in compositions(len(l)):
            yield _case(src, f"x[da.from_array(np.array({l!r}), chunks=({ic!r},))]", "dask-int", nexpr=f"a[np.array({l!r})]")
    for m in masks_1d(n)[:: max(1, len(masks_1d(n)) // 8)]:
        for ic in compositions(n)[:: max(1, len(compositions(n)) // 4)]:
            yield _case(src, f"x[da.from_array({fmt_index(m)}, chunks=({ic!r},))]", "dask-bool", nexpr=f"a[{fmt_index(m)}]")
    # .blocks
    nb = len(ch)
    offs = np.concatenate([[0], np.cumsum(ch)]).astype(int)
    bsel = list(range(-nb, nb)) + [slice(None), slice(1, None), slice(None, None, 2), slice(None, None, -1), [0], [nb - 1, 0]]
    for b in bsel:
        try:
            blocks = list(np.arange(nb)[b if not isinstance(b, int) else [b]])
        except IndexError:
            continue
        elems = [int(e) for k in blocks for e in range(offs[k], offs[k + 1])]
        yield _case(src, f"x.blocks[{fmt_index(b)}]", "blocks", nexpr=f"a[{elems!r}]" if elems else "a[:0]", np_raises_must_raise=False)
    # indexing an array with unknown chunk sizes
    for idx in [0, -1, slice(1, None), slice(None, 2), slice(None, None, -1), [0], None, Ellipsis]:
        yield _case(src, f"x[x > {12}][{fmt_index(idx)}]", "unknown-chunks", may_refuse=["ValueError", "NotImplementedError", "IndexError"], np_raises_must_raise=True)


def _idx_small(n):
    out = list(range(-n, n)) + [slice(None), slice(1, None), slice(None, -1), slice(None, None, 2), slice(None, None, -1), slice(n - 1, 0, -2), slice(1, 1), slice(-2, None), slice(0, n + 3, 3)]
    return out


def _gen_2d(shape, chunks):
    src = E.src(shape, chunks)
    A0, A1 = _idx_small(shape[0]), _idx_small(shape[1])
    for i0 in A0:
        for i1 in A1:
            yield _case(src, f"x[{fmt_index((i0, i1))}]", "2d-basic")
    for i0 in A0:
        yield _case(src, f"x[{fmt_index(i0)}]", "2d-basic")
        yield _case(src, f"x[{fmt_index((Ellipsis, i0))}]" if shape[1] >= 1 else "x[...]", "2d-ellipsis")
        yield _case(src, f"x[{fmt_index((None, i0))}]", "2d-none")
        yield _case(src, f"x[{fmt_index((i0, None))}]", "2d-none")
        yield _case(src, f"x[{fmt_index((i0, Ellipsis, None))}]", "2d-none")
    lists0 = [[0], [shape[0] - 1, 0], [0, 0], [-1]] if shape[0] else [[]]
    lists1 = [[0], [shape[1] - 1, 0], [1, 1, 0], [-1, 0]] if shape[1] > 1 else [[0]] if shape[1] else [[]]
    for l in lists0:
        for i1 in A1[:: 2]:
            yield _case(src, f"x[{fmt_index((l, i1))}]", "2d-list")
    for l in lists1:
        for i0 in A0[:: 2]:
            yield _case(src, f"x[{fmt_index((i0, l))}]", "2d-list")
    if shape[0] and shape[1]:
        m0 = (np.arange(shape[0]) % 2 == 0)
        m1 = (np.arange(shape[1]) % 2 == 1)
        yield _case(src, f"x[{fmt_index(m0)}]", "2d-mask")
        yield _case(src, f"x[:, {fmt_index(m1)}]", "2d-mask")
        full = (np.arange(shape[0] * shape[1]).reshape(shape) % 3 == 0)
        yield _case(src, f"x[{fmt_index(full)}]", "2d-fullmask")
        yield _case(src, "x[x > 14]", "2d-fullmask")
        # multiple fancy axes / N-d fancy: documented NotImplementedError or NumPy value
        yield _case(src, f"x[{fmt_index(([0, 1], [1, 0]))}]", "2d-two-lists", np_raises_must_raise=False)
        # vindex: pointwise
        for l0 in lists0:
            for l1 in lists1:
                if len(l0) == len(l1) or len(l0) == 1 or len(l1) == 1:
                    yield _case(src, f"x.vindex[{l0!r}, {l1!r}]", "vindex", nexpr=f"a[{l0!r}, {l1!r}]")
        for l1 in lists1:
            yield _case(src, f"x.vindex[0, {l1!r}]", "vindex", nexpr=f"a[0, {l1!r}]")
            # dask's documented vindex layout: the pointwise (fancy) axis comes first
            yield _case(src, f"x.vindex[:, {l1!r}]", "vindex", nexpr=f"a[:, {l1!r}].T")
        # .blocks in 2-D
        nb0, nb1 = len(chunks[0]), len(chunks[1])
        o0 = np.concatenate([[0], np.cumsum(chunks[0])]).astype(int)
        o1 = np.concatenate([[0], np.cumsum(chunks[1])]).astype(int)
        for b0 in [0, nb0 - 1, slice(None), slice(None, None, -1)]:
            for b1 in [0, -1, slice(None), slice(1, None)]:
                k0 = list(np.arange(nb0)[b0 if not isinstance(b0, int) else [b0]])
                k1 = list(np.arange(nb1)[b1 if not isinstance(b1, int) else [b1]])
                e0 = [int(e) for k in k0 for e in range(o0[k], o0[k + 1])]
                e1 = [int(e) for k in k1 for e in range(o1[k], o1[k + 1])]
                if not k0 or not k1:
                    continue  # an empty selection of blocks has no array to denote
                yield _case(src, f"x.blocks[{fmt_index((b0, b1))}]", "blocks", nexpr=f"a[np.ix_(np.array({e0!r}, dtype=int), np.array({e1!r}, dtype=int))]", np_raises_must_raise=False)


def gen_cases(shard):
    w = shard["what"]
    if w == "1d":
        yield from _gen_1d(shard["n"], tuple(shard["chunks"]), shard["zero"])
    else:
        yield from _gen_2d(tuple(shard["shape"]), tuple(tuple(c) for c in shard["chunks"]))


def plan_shards(tier):
    shards = []
    nmax = 5 if tier == "quick" else 6
    for n in range(0, nmax + 1):
        for ch in compositions(n):
            shards.append({"what": "1d", "n": n, "chunks": list(ch), "zero": False})
    zmax = 3 if tier == "quick" else 5
    for n in range(1, zmax + 1):
        base = set(compositions(n))
        for ch in chz(n, 1 if tier == "quick" or n > 3 else 2):
            if ch not in base:
                shards.append({"what": "1d", "n": n, "chunks": list(ch), "zero": True})
    shapes = [(3, 4), (1, 4), (0, 3)] if tier != "quick" else [(3, 4), (0, 3)]
    for shp in shapes:
        chs = list(itertools.product(*[compositions(s) for s in shp]))
        if tier == "quick" and len(chs) > 12:
            chs = chs[::3]
        for c in chs:
            shards.append({"what": "2d", "shape": list(shp), "chunks": [list(k) for k in c]})
    return shards


def _bounds(tier):
    return {"1d_n<=": 5 if tier == "quick" else 6, "zero_block_layouts_n<=": 3 if tier == "quick" else 5, "2d_shapes": [[3, 4], [0, 3]] if tier == "quick" else [[3, 4], [1, 4], [0, 3]]}


_m = CC.make(
    "C12", gen_cases, plan_shards,
    rule="1-D: every n, every chunking (plus layouts with zero-size blocks), every int in [-n-1,n], every slice with start/stop in [-n-2,n+2] and steps +-1,+-2,+-3,+-(n+1), None/Ellipsis forms, all int lists of length <= 2 (+exemplars), all boolean masks (n<=4), dask int/bool indexers under every chunking of the indexer, .blocks selections, indexing after an unknown-size mask; 2-D: all pairs from a per-axis index set hitting every boundary class, None/Ellipsis positions, one list or mask per tuple, .vindex, .blocks. If NumPy raises, dask must raise; documented NotImplementedError is a refusal; any other raise or difference is a violation. Non-trivial = multi-block source and non-empty selection",
    assumptions=["NumPy indexing is the reference", "for .blocks the reference is the concatenation of the selected blocks"],
    floors={"accepted": 5000, "both_raise": 50},
    bounds=_bounds,
)
globals().update(_m)
