"""C13 — slice algebra helpers are exact (E2: complete enumeration of finite
input spaces against brute-force index arithmetic on range(n))."""

from __future__ import annotations

import itertools
from numbers import Integral

import numpy as np

from mc.common import ShardOut
from mc.domains import compositions, fmt_index, slices_1d

PROPERTY = "C13"


def _idx1(n):
    """1-D basic indices: ints, slices of every sign/step, None."""
    ints = list(range(-n - 1, n + 1))
    return ints + slices_1d(n) + [None]


def _apply(arr, idx):
    return arr[idx]


def _fail(out, kind, helper, detail, case):
    out.fail({"kind": kind, "signature": f"{kind}:{helper}", "case": case, "detail": detail})


# ------------------------------------------------------------------ shards


def plan(tier, seed):
    nmax = 5 if tier == "quick" else 6
    cmax = 6 if tier == "quick" else 7
    shards = []
    for n in range(0, nmax + 1):
        shards.append({"what": "fuse1", "n": n})
        shards.append({"what": "normalize", "n": n})
    for n in range(1, 4 if tier == "quick" else 5):
        shards.append({"what": "fuse2", "n": n})
    for n in range(0, cmax + 1):
        for part in range(4):
            shards.append({"what": "slice1d", "n": n, "part": part, "parts": 4})
    for n in range(0, 5 if tier == "quick" else 7):
        shards.append({"what": "compose", "n": n, "depth": 2 if tier == "quick" else 3})
    return {
        "shards": shards,
        "coverage": {
            "exhaustive": True,
            "bounds": {"fuse_slice_dim<=": nmax, "rank2_dim<=": 3 if tier == "quick" else 4, "slice_plan_dim<=": cmax, "compose_depth": 2 if tier == "quick" else 3},
            "rule": "complete enumeration: fuse_slice over all pairs of 1-D basic indices (ints, slices with start/stop in [-n-2,n+2] and steps +-1,+-2,+-3,+-(n+1), None), bare and as tuples, and rank-2 tuples; normalize_slice/normalize_index/posify over the same index set plus lists/masks; _slice_1d/new_blockdim/_compute_sliced_chunks/_slice_chunks for every chunking of every n over the image of normalize_slice; _compose_slices over unit-step region nests. Non-trivial = accepted (not refused) case whose selection is non-empty and not the identity",
        },
        "assumptions": ["the helpers' contract domain for _slice_1d/new_blockdim is normalized input (the call sites normalize first)", "NotImplementedError from fuse_slice is a refusal"],
    }


def run_shard(shard):
    out = ShardOut()
    w = shard["what"]
    if w == "fuse1":
        _fuse1(shard["n"], out)
    elif w == "fuse2":
        _fuse2(shard["n"], out)
    elif w == "normalize":
        _normalize(shard["n"], out)
    elif w == "slice1d":
        _slice1d(shard["n"], shard["part"], shard["parts"], out)
    elif w == "compose":
        _compose(shard["n"], shard["depth"], out)
    return out.result()


# ------------------------------------------------------------------ fuse_slice


def _check_fuse(arr, a, b, out, label):
    """a then b on arr vs fuse_slice(a, b)."""
    from dask_array.slicing._utils import fuse_slice

    out.count("evaluations")
    out.count("transitions")
    try:
        first = arr[a]
        want = first[b]
    except (IndexError, TypeError):
        out.count("numpy_refused")
        return
    try:
        fused = fuse_slice(a, b)
    except NotImplementedError:
        out.count("refused")
        return
    except Exception as e:
        _fail(out, "raise", "fuse_slice", f"{label}: fuse_slice({fmt_index(a)}, {fmt_index(b)}) raised {type(e).__name__}: {e} on shape {arr.shape}", {"helper": "fuse_slice", "shape": list(arr.shape), "a": repr(a), "b": repr(b)})
        return
    out.count("accepted")
    try:
        got = arr[fused]
        ok = got.shape == want.shape and np.array_equal(got, want)
    except Exception as e:
        ok = False
        got = f"{type(e).__name__}: {e}"
    if not ok:
        _fail(out, "wrong-selection", "fuse_slice", f"{label}: shape {arr.shape}: x[{fmt_index(a)}][{fmt_index(b)}] = {np.asarray(want).tolist()} but x[fuse_slice(a,b)={fmt_index(fused)}] = {got.tolist() if hasattr(got, 'tolist') else got}", {"helper": "fuse_slice", "shape": list(arr.shape), "a": repr(a), "b": repr(b)})
        return
    if want.size and want.size != arr.size:
        out.count("nontrivial")
    out.sadd("state_keys", hash((arr.shape, repr(a), repr(b))))
    if want.size and len(out.samples) < 2:
        out.sample(f"fuse_slice({fmt_index(a)}, {fmt_index(b)}) -> {fmt_index(fused)} on dim {arr.shape}")


def _fuse1(n, out):
    arr = np.arange(n)
    I = _idx1(n)
    for a in I:
        for b in I:
            if not isinstance(a, Integral) and a is not None:
                _check_fuse(arr, a, b, out, "bare")
            _check_fuse(arr, (a,), (b,), out, "tuple")


def _idx_small(n):
    ints = list(range(0, n))
    sl = [slice(None), slice(1, None), slice(None, n - 1), slice(0, None, 2), slice(1, n, 2), slice(None, None, -1), slice(1, 1), slice(n - 1, None)]
    return ints + sl


def _fuse2(n, out):
    arr = np.arange(n * (n + 1)).reshape(n, n + 1)
    A0, A1 = _idx_small(n), _idx_small(n + 1)
    for a in itertools.product(A0 + [None], A1):
        try:
            first = arr[a]
        except IndexError:
            continue
        B = []
        dims = first.shape
        per = [(_idx_small(d) + [None]) for d in dims]
        for b in itertools.product(*per) if per else [()]:
            B.append(b)
        for b in B:
            _check_fuse(arr, a, b, out, "rank2")
        for d0 in (per[0] if per else []):
            _check_fuse(arr, a, (d0,), out, "rank2-short")


# ------------------------------------------------------------------ normalize


def _normalize(n, out):
    from dask_array.slicing._utils import normalize_index, normalize_slice, posify_index

    arr = np.arange(n) + 100
    for s in slices_1d(n):
        out.count("evaluations")
        out.count("transitions")
        want = arr[s]
        try:
            ns = normalize_slice(s, n)
            got = arr[ns]
        except Exception as e:
            _fail(out, "raise", "normalize_slice", f"normalize_slice({s}, {n}) raised {type(e).__name__}: {e}", {"helper": "normalize_slice", "n": n, "idx": repr(s)})
            continue
        out.count("accepted")
        if not np.array_equal(got, want):
            _fail(out, "wrong-selection", "normalize_slice", f"normalize_slice({s}, {n}) = {ns}: selects {got.tolist()} but the slice selects {want.tolist()}", {"helper": "normalize_slice", "n": n, "idx": repr(s)})
            continue
        if ns != normalize_slice(ns, n):
            out.count("normalize_not_idempotent")
        if want.size and want.size != n:
            out.count("nontrivial")
        out.sadd("state_keys", hash(("ns", n, repr(s))))
    # posify / normalize_index over ints, lists, None, Ellipsis, masks
    from mc.domains import int_lists_1d, ints_1d, masks_1d

    cands = list(ints_1d(n)) + slices_1d(n, wide=False) + [None, Ellipsis] + [np.array(l, dtype=int) for l in int_lists_1d(n)] + int_lists_1d(n) + masks_1d(n)
    cands += [(Ellipsis, None), (None, slice(None)), (slice(None), None)]
    for idx in cands:
        out.count("evaluations")
        out.count("transitions")
        try:
            want = arr[tuple(idx) if isinstance(idx, tuple) else idx]
            np_err = None
        except IndexError as e:
            np_err = e
        try:
            ni = normalize_index(idx, (n,))
        except IndexError:
            if np_err is None:
                _fail(out, "raise", "normalize_index", f"normalize_index({fmt_index(idx)}, ({n},)) raised IndexError but NumPy accepts the index", {"helper": "normalize_index", "n": n, "idx": fmt_index(idx)})
            else:
                out.count("both_raise")
            continue
        except NotImplementedError:
            out.count("refused")
            continue
        except Exception as e:
            if np_err is None:
                _fail(out, "raise", "normalize_index", f"normalize_index({fmt_index(idx)}, ({n},)) raised {type(e).__name__}: {e}", {"helper": "normalize_index", "n": n, "idx": fmt_index(idx)})
            continue
        if np_err is not None:
            _fail(out, "missing-raise", "normalize_index", f"NumPy raises IndexError for x[{fmt_index(idx)}] on length {n} but normalize_index returned {ni}", {"helper": "normalize_index", "n": n, "idx": fmt_index(idx)})
            continue
        out.count("accepted")
        conv = tuple(np.asarray(i.compute()) if hasattr(i, "compute") else i for i in ni)
        try:
            got = arr[conv]
        except Exception as e:
            got = None
        if got is None or got.shape != want.shape or not np.array_equal(got, want):
            _fail(out, "wrong-selection", "normalize_index", f"normalize_index({fmt_index(idx)}, ({n},)) = {ni} selects {None if got is None else got.tolist()} but NumPy selects {want.tolist()}", {"helper": "normalize_index", "n": n, "idx": fmt_index(idx)})
            continue
        # normalized ints/lists must be non-negative (posified)
        for i in conv:
            if isinstance(i, Integral) and i < 0:
                _fail(out, "not-posified", "normalize_index", f"normalize_index({fmt_index(idx)}) left a negative int {i}", {"helper": "normalize_index", "n": n, "idx": fmt_index(idx)})
        if want.size and want.size != n:
            out.count("nontrivial")
        out.sadd("state_keys", hash(("ni", n, fmt_index(idx))))


# ------------------------------------------------------------------ block plans


def _slice1d(n, part, parts, out):
    from dask_array.slicing._basic import SliceSlicesIntegers, _compute_sliced_chunks
    from dask_array.slicing._utils import _slice_1d, new_blockdim, normalize_slice

    base = np.arange(n)
    # the image of normalize_slice plus in-range non-negative ints
    seen = {}
    for s in slices_1d(n):
        ns = normalize_slice(s, n)
        seen[(ns.start, ns.stop, ns.step)] = ns
    idxs = list(seen.values()) + list(range(n))
    chs = compositions(n)
    for ci, ch in enumerate(chs):
        if ci % parts != part:
            continue
        offs = np.concatenate([[0], np.cumsum(ch)])
        for idx in idxs:
            out.count("evaluations")
            out.count("transitions")
            want = base[idx]
            case = {"helper": "_slice_1d", "n": n, "chunks": list(ch), "idx": repr(idx)}
            try:
                plan = _slice_1d(n, list(ch), idx)
            except Exception as e:
                _fail(out, "raise", "_slice_1d", f"_slice_1d({n}, {ch}, {idx}) raised {type(e).__name__}: {e}", case)
                continue
            out.count("accepted")
            neg = isinstance(idx, slice) and idx.step is not None and idx.step < 0
            pieces = []
            bad = None
            for b in sorted(plan, reverse=neg):
                sl = plan[b]
                if not (0 <= b < len(ch)):
                    bad = f"block number {b} out of range"
                    break
                blk = base[offs[b]:offs[b + 1]]
                if isinstance(sl, Integral):
                    if not (0 <= sl < len(blk)):
                        bad = f"int {sl} outside block {b} of size {len(blk)}"
                        break
                    pieces.append(blk[sl:sl + 1])
                else:
                    for v in (sl.start, sl.stop):
                        if v is not None and (v > len(blk) or v < -len(blk) - 1):
                            bad = f"piece {sl} reaches outside block {b} of size {len(blk)}"
                    pieces.append(blk[sl])
            if bad is None:
                got = np.concatenate(pieces) if pieces else base[:0]
                if not np.array_equal(got, np.atleast_1d(want)):
                    bad = f"pieces select {got.tolist()}, index selects {np.atleast_1d(want).tolist()}"
            if bad:
                _fail(out, "wrong-plan", "_slice_1d", f"_slice_1d({n}, {ch}, {idx}) = {plan}: {bad}", case)
                continue
            if isinstance(idx, slice):
                lens = [len(p) for p in pieces]
                try:
                    nb = list(new_blockdim(n, list(ch), idx))
                except Exception as e:
                    _fail(out, "raise", "new_blockdim", f"new_blockdim({n}, {ch}, {idx}) raised {type(e).__name__}: {e}", dict(case, helper="new_blockdim"))
                    continue
                if idx == slice(None, None, None):
                    expect = list(ch)
                else:
                    expect = lens
                if nb != expect and not (sum(nb) == 0 and sum(expect) == 0):
                    _fail(out, "wrong-chunks", "new_blockdim", f"new_blockdim({n}, {ch}, {idx}) = {nb}, per-block piece lengths are {expect}", dict(case, helper="new_blockdim"))
                    continue
                if sum(nb) != len(np.atleast_1d(want)):
                    _fail(out, "wrong-chunks", "new_blockdim", f"new_blockdim({n}, {ch}, {idx}) = {nb} does not sum to {len(want)}", dict(case, helper="new_blockdim"))
                    continue
                # _compute_sliced_chunks (FromArray region path)
                try:
                    sc = tuple(_compute_sliced_chunks(tuple(ch), idx, n))
                except Exception as e:
                    _fail(out, "raise", "_compute_sliced_chunks", f"_compute_sliced_chunks({ch}, {idx}, {n}) raised {type(e).__name__}: {e}", dict(case, helper="_compute_sliced_chunks"))
                    continue
                if sum(sc) != len(want) or any(c < 0 for c in sc) or len(sc) == 0:
                    _fail(out, "wrong-chunks", "_compute_sliced_chunks", f"_compute_sliced_chunks({ch}, {idx}, {n}) = {sc} does not sum to {len(want)}", dict(case, helper="_compute_sliced_chunks"))
                    continue
                st = idx.step
                if st is None or st == 1:
                    nz = [l for l in lens if l] or [0]
                    if list(sc) != nz and not (sum(sc) == 0):
                        _fail(out, "wrong-chunks", "_compute_sliced_chunks", f"_compute_sliced_chunks({ch}, {idx}, {n}) = {sc}, per-block overlaps are {nz}", dict(case, helper="_compute_sliced_chunks"))
                        continue
                    start, stop, _ = idx.indices(n)
                    ln = max(0, stop - start)
                    try:
                        sc2 = SliceSlicesIntegers._slice_chunks(None, tuple(ch), start, ln)
                    except Exception as e:
                        _fail(out, "raise", "_slice_chunks", f"_slice_chunks({ch}, {start}, {ln}) raised {type(e).__name__}: {e}", dict(case, helper="_slice_chunks"))
                        continue
                    if list(sc2) != nz and not (sum(sc2) == 0 and sum(nz) == 0):
                        _fail(out, "wrong-chunks", "_slice_chunks", f"_slice_chunks({ch}, {start}, {ln}) = {sc2}, per-block overlaps are {nz}", dict(case, helper="_slice_chunks"))
                        continue
            if len(plan) > 1:
                out.count("nontrivial")
            out.sadd("state_keys", hash(("s1d", n, ch, repr(idx))))
            if len(plan) > 1 and len(out.samples) < 1:
                out.sample(f"_slice_1d({n}, {list(ch)}, {idx}) -> {plan}")


# ------------------------------------------------------------------ _compose_slices


def _compose(n, depth, out):
    from dask_array.slicing._basic import _compose_slices

    base = np.arange(n)

    def unit(m):
        # what FromArray._accept_slice can pass: unit-step slices (raw user form after
        # normalize_slice) and ints turned into slice(i, i+1)
        res = [slice(None)]
        for a in range(0, m + 1):
            for b in range(a, m + 1):
                res.append(slice(a, b))
            res.append(slice(a, None))
        res += [slice(i, i + 1) for i in range(m)]
        return res

    def rec(region, cur, level):
        # region: absolute slice into base; cur: the selected values
        for inner in unit(len(cur)):
            out.count("evaluations")
            out.count("transitions")
            want = cur[inner]
            try:
                comp = _compose_slices(region, inner, n)
                got = base[comp]
            except Exception as e:
                _fail(out, "raise", "_compose_slices", f"_compose_slices({region}, {inner}, {n}) raised {type(e).__name__}: {e}", {"helper": "_compose_slices", "n": n, "outer": repr(region), "inner": repr(inner)})
                continue
            out.count("accepted")
            ok = np.array_equal(got, want)
            st, sp, stp = comp.indices(n)
            inb = 0 <= st <= n and -1 <= sp <= n
            if not ok or not inb:
                _fail(out, "wrong-selection", "_compose_slices", f"_compose_slices({region}, {inner}, {n}) = {comp} selects {got.tolist()}, nested application selects {want.tolist()}", {"helper": "_compose_slices", "n": n, "outer": repr(region), "inner": repr(inner)})
                continue
            if want.size and want.size != len(cur):
                out.count("nontrivial")
            out.sadd("state_keys", hash(("cmp", n, repr(region), repr(inner))))
            if level + 1 < depth and len(want) > 0:
                rec(comp, want, level + 1)

    for outer in unit(n):
        rec(outer, base[outer], 0)


# ------------------------------------------------------------------ reporting


def coverage(agg, plan):
    c = agg.counters
    return {
        "states": len(agg.sets.get("state_keys", ())),
        "transitions": c["transitions"],
        "traces_validated_against_impl": c["accepted"],
        "evaluations": c["evaluations"],
        "distinct_nontrivial": c["nontrivial"],
    }


def vacuity(agg, plan):
    c = agg.counters
    v = []
    if c["accepted"] < 10000:
        v.append(f"only {c['accepted']} accepted helper evaluations")
    if c["refused"] < 100:
        v.append("fuse_slice never refused: negative-index domain not reached")
    return v


def replay(case):
    """Re-run one recorded helper case."""
    out = ShardOut()
    h = case["helper"]
    env = {"slice": slice, "None": None, "Ellipsis": Ellipsis, "np": np}
    if h == "fuse_slice":
        shape = tuple(case["shape"])
        arr = np.arange(int(np.prod(shape))).reshape(shape)
        _check_fuse(arr, eval(case["a"], env), eval(case["b"], env), out, "replay")
    elif h in ("normalize_slice", "normalize_index"):
        _normalize(case["n"], out)
        out.failures = [f for f in out.failures if f["case"].get("idx") == case.get("idx") and f["case"]["helper"] == h]
    elif h in ("_slice_1d", "new_blockdim", "_compute_sliced_chunks", "_slice_chunks"):
        n = case["n"]
        chs = compositions(n)
        ci = chs.index(tuple(case["chunks"]))
        _slice1d(n, ci % 4, 4, out)
        out.failures = [f for f in out.failures if f["case"].get("idx") == case.get("idx") and f["case"].get("chunks") == case.get("chunks") and f["case"]["helper"] == h]
    elif h == "_compose_slices":
        _compose(case["n"], 3, out)
        out.failures = [f for f in out.failures if f["case"].get("outer") == case.get("outer") and f["case"].get("inner") == case.get("inner")]
    return out.failures[0] if out.failures else None
