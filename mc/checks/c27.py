"""C27 — transfer estimates are well-formed (E1 part; E2 part in c27 pure)."""
from mc import e1check as X
from mc import monitors as M

_m = X.make(
    "C27", M.judge_c27,
    quick=X.std_quick(), thorough=X.std_thorough(),
    rule="every node (walk()) of the unlowered, raw-lowered, simplified, lowered, fused and materialized trees of every program of the E1 space: transfer_bytes is a pair with 0 <= min <= max, NaN only with unknown chunk sizes, aliases and identical-chunk rechunks move (0,0); non-trivial = a node with > 1 block",
    assumptions=["small scope as C01"],
    floors={"nodes_checked": 5000},
)
globals().update(_m)
