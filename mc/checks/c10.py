"""C10 — computation is schedule-independent and never mutates inputs (E3)."""

from __future__ import annotations

import numpy as np

from mc import explorer as E
from mc import graphx as G
from mc import ops as OPS
from mc import sched as S

PROPERTY = "C10"

# ops whose kernels / views are the in-place suspects, plus producers that make
# graphs with choice (several ready tasks) and aliasing (views)
FIRST = [
    "sl_1_4", "sl_s2", "sl_rev", "add1", "add_0d", "add_row", "T", "rs_m1", "cat_parts", "stack0", "rc2", "rc3", "rc_all", "rc_tasks",
    "sum0", "mean_se2", "argmax0", "cumsum0", "cumsumm1_bl", "swv2_sum", "swv3_max", "swv2_mean", "diff", "ovl_reflect", "ovl_periodic",
    "mb_double", "bcast", "tk_201", "where_gt", "as_f4",
    "set_sl", "set_step", "set_int", "set_list", "set_mask", "add_where_out", "add_where_out_self", "sin_out_self",
]
# set_masked only ever comes last: NumPy functions applied on top of a masked
# array (np.concatenate, sliding windows) do not define a reference
SECOND = [
    "sl_1_4", "sl_rev", "add1", "add_row", "rc2", "rc_all", "sum0", "mean_se2", "cumsum0", "swv2_sum", "diff", "mb_double", "T",
    "set_sl", "set_masked", "add_where_out", "add_where_out_self", "sin_out_self", "b_add", "b_cat",
]


def _cmp(val, ref, exact):
    if isinstance(val, np.ma.MaskedArray) or isinstance(ref, np.ma.MaskedArray):
        vm, rm = np.ma.getmaskarray(val), np.ma.getmaskarray(ref)
        if vm.shape != rm.shape or not np.array_equal(vm, rm):
            return ("value", f"mask differs: {vm.tolist()} vs numpy {rm.tolist()}")
        return E.compare(np.ma.filled(val, -999.0), np.ma.filled(ref, -999.0), exact=exact, dtype=False)
    return E.compare(val, ref, exact=exact, dtype=True)


def explore_case(case, bound, out=None, max_schedules=4000, max_tasks=60):
    """Explore all schedules with <= bound deviations of the program's
    optimized graph.  Returns failure dict or None."""
    ops = [OPS.BY_NAME[s[0]] for s in case["steps"]]
    exact = all(o.exact for o in ops)
    ref_holder = {}

    def make():
        dpool, npool = E.build_program(case)
        y = dpool[-1]
        ref_holder["ref"] = npool[-1]
        ref_holder["y"] = y
        dsk = y.__dask_graph__()
        keys = G.flat_keys(y.__dask_keys__())
        graph = S.Graph(dsk, keys)
        ref_holder["keys"] = y.__dask_keys__()
        # user source + the array stored inside the expression tree (shared by
        # every collection derived from that from_array)
        srcs = [npool[0]]
        for node in dpool[0].expr.walk():
            arr = getattr(node, "array", None)
            if isinstance(arr, np.ndarray):
                srcs.append(arr)
        return graph, srcs

    try:
        g0, _ = make()
    except NotImplementedError:
        if out is not None:
            out.count("refused")
        return None
    except Exception as e:
        return {"kind": "graph-raise", "signature": f"graph-raise:{E.exc_sig(e)}:{E.op_path(case)}", "case": dict(case, bound=bound), "detail": f"{E.prog_str(case)}\n building the graph raised {type(e).__name__}: {str(e)[:200]}"}
    ntasks = len(g0.tasks)
    if out is not None:
        out.dcount("tasks_hist", str(min(ntasks // 10 * 10, 100)))
    if ntasks > max_tasks:
        if out is not None:
            out.count("skipped_too_many_tasks")
        return None
    base = {}

    def judge(cache, graph):
        keys = ref_holder["keys"]

        def fetch(k):
            return [fetch(x) for x in k] if isinstance(k, list) else cache[k]

        try:
            whole = G.assemble(fetch(keys))
        except Exception as e:
            return ("assemble", f"{type(e).__name__}: {str(e)[:120]}")
        fp = S.fingerprint(whole)
        if "fp" not in base:
            base["fp"] = fp
            bad = _cmp(whole, ref_holder["ref"], exact)
            if bad:
                return (bad[0] + "-vs-numpy", bad[1])
            # aliasing statistics (once, on the default schedule)
            arrs = [a for v in cache.values() for a in S.arrays_in(v)]
            shared = False
            for i in range(min(len(arrs), 40)):
                for j in range(i + 1, min(len(arrs), 40)):
                    if arrs[i].size and arrs[j].size and np.shares_memory(arrs[i], arrs[j]):
                        shared = True
                        break
                if shared:
                    break
            base["aliasing"] = shared
        elif fp != base["fp"]:
            bad = _cmp(whole, ref_holder["ref"], exact)
            return ("schedule-dependent", f"result differs from the default-order run{': ' + bad[1] if bad else ''}")
        return None

    try:
        st = S.explore(make, bound, judge, max_schedules=max_schedules)
    except NotImplementedError:
        if out is not None:
            out.count("refused")
        return None
    if out is not None:
        out.count("graphs")
        out.count("schedules", st["schedules"])
        out.count("transitions", st["schedules"] * max(1, st["tasks"]))
        out.count("deviated_schedules", st["deviated"])
        if st["capped"]:
            out.count("capped_graphs")
        if base.get("aliasing"):
            out.count("aliasing_graphs")
            if st["deviated"]:
                out.count("nontrivial")
        if st["max_ready"] > 1:
            out.count("graphs_with_choice")
    if st["failure"]:
        kind, msg, sched = st["failure"]
        last = case["steps"][-1][0] if case["steps"] else "source"
        sigpath = E.op_path(case)
        # minimise: does the last op alone (on a fresh single-op program) fail the same way?
        if len(case["steps"]) > 1:
            solo = {"source": case["source"], "steps": [[last, [0] * len(case["steps"][-1][1])]]}
            try:
                f2 = explore_case(solo, bound, None, max_schedules=500)
                if f2 is not None and f2["kind"] == kind:
                    sigpath = last
            except Exception:
                pass
        return {
            "kind": kind,
            "signature": f"{kind}:{sigpath}",
            "case": dict(case, bound=bound, schedule=sched),
            "detail": f"{E.prog_str(case)}\n {msg}",
            "script": E.program_script(case),
        }
    return None


def plan(tier, seed):
    srcs = [E.src((6,), ((2, 1, 3),)), E.src((3, 4), ((2, 1), (2, 2))), E.src((6,), ((6,),))]
    if tier != "quick":
        srcs += [E.src((6,), ((3, 3),)), E.src((6,), ((1, 1, 1, 1, 1, 1),)), E.src((3, 4), ((3,), (4,))), E.src((3, 4), ((1, 2), (1, 3))), E.src((4,), ((2, 2),), "i8")]
    shards = []
    for s in srcs:
        for f in FIRST:
            shards.append({"source": s, "first": f, "bound": 1 if tier == "quick" else 2, "tier": tier})
    return {
        "shards": shards,
        "coverage": {
            "exhaustive": True,
            "bounds": {"deviations": 1 if tier == "quick" else 2, "depth": 2, "first_ops": len(FIRST), "second_ops": len(SECOND), "sources": len(srcs), "max_tasks_per_graph": 60, "max_schedules_per_graph": 4000},
            "rule": "for every depth<=2 program over the in-place/view-suspect alphabet: the optimized task graph is executed by the harness in EVERY topological order with <= k deviations from the dask.order default (k iterated 0,1[,2]); each schedule on a fresh graph over a fresh source; after every task the fingerprints of all live values and of the source arrays (user array and the array stored in the expression) are compared with before; final result equals the default-order run and NumPy. Non-trivial = graph whose values alias (np.shares_memory) explored with >= 1 deviated schedule",
            "soundness_remark": "if no task mutates anything it can reach and tasks are deterministic functions of their inputs, all topological orders are equivalent; the whole-heap monitor checks the premise on every executed task, the deviation bound explores orders directly. Thread interleavings are covered at task granularity only.",
        },
        "assumptions": ["task granularity: races inside one NumPy kernel are not modelled", "graphs above 60 non-data tasks are skipped (counted)", "values are never released during a schedule (strongest setting for the mutation monitor)"],
    }


def run_shard(shard):
    from mc.common import ShardOut

    out = ShardOut()
    src, first, bound = shard["source"], shard["first"], shard["bound"]
    a, x = E.make_source(src)
    op1 = OPS.BY_NAME[first]
    if not op1.applies(a):
        return out.result()
    progs = [[[first, [0]]]]
    try:
        n1 = op1.numpy(a)
    except Exception:
        return out.result()
    for s in SECOND:
        op2 = OPS.BY_NAME[s]
        if op2.arity == 1:
            if op2.applies(np.asarray(n1)):
                progs.append([[first, [0]], [s, [1]]])
        else:
            for idxs in ([0, 1], [1, 1]):
                progs.append([[first, [0]], [s, idxs]])
    for steps in progs:
        case = {"source": src, "steps": steps}
        out.count("evaluations")
        out.sadd("state_keys", hash(repr(case)))
        try:
            dpool, npool = E.build_program(case, strict=True)
        except Exception:
            out.count("not_a_program")
            continue
        b = bound
        f = None
        # iterate the bound: 0, then 1, then 2
        for k in range(0, b + 1):
            mt = (36 if shard["tier"] == "quick" else 60) if k < 2 else 22
            f = explore_case(case, k, out if k == b else None, max_schedules=4000 if k < 2 else 3000, max_tasks=mt)
            if f:
                break
        if f:
            out.fail(f)
        elif len(out.samples) < 1 and out.counters["nontrivial"]:
            out.sample(E.prog_str(case))
    return out.result()


def coverage(agg, plan):
    c = agg.counters
    return {"states": len(agg.sets.get("state_keys", ())), "transitions": c["transitions"], "traces_validated_against_impl": c["schedules"], "evaluations": c["evaluations"], "distinct_nontrivial": c["nontrivial"], "graphs": c["graphs"], "schedules": c["schedules"], "deviated_schedules": c["deviated_schedules"], "capped_graphs": c["capped_graphs"], "exhaustive": c["capped_graphs"] == 0}


def vacuity(agg, plan):
    c = agg.counters
    v = []
    if c["deviated_schedules"] < 500:
        v.append(f"only {c['deviated_schedules']} deviated schedules")
    if c["aliasing_graphs"] < 20:
        v.append(f"only {c['aliasing_graphs']} graphs whose values alias")
    if c["graphs_with_choice"] < 50:
        v.append("too few graphs with more than one ready task")
    return v


def replay(case):
    bound = case.get("bound", 1)
    c = {"source": case["source"], "steps": case["steps"]}
    for k in range(0, bound + 1):
        f = explore_case(c, k, None)
        if f:
            return f
    return None
