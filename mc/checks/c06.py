"""C06 — equal names denote equal arrays (E4: long-lived processes + constructor log).

Each shard is ONE long-lived process state: it builds all programs of a
bounded space one after another and keeps every collection alive, so the
singleton registries, ``_LOWER_CACHE`` and per-collection caches stay
populated the way they are in a real session.  Different shards use different
program orders (collisions are order-sensitive).
"""

from __future__ import annotations

import gc
import random

import numpy as np

from mc import explorer as E
from mc import graphx as G
from mc import monitors as M
from mc import ops as OPS
from mc import sched as S
from mc.common import ShardOut

PROPERTY = "C06"

# parameter-variant sibling sets: ops that differ in exactly one parameter a
# tokenizer / cache key / hand-built name could ignore
VARIANTS = [
    "sl_1_4", "sl_2_", "sl__1", "sl_m2", "sl_s2", "sl_1s2", "sl_rev", "ix_1", "ix_m1", "sl2_a", "sl2_b", "sl2_c",
    "tk_201", "tk_00", "tk_m1_0", "add1", "add2", "mul2", "as_i8", "as_f4", "T", "swap01", "exp0", "expm1",
    "rs_2_m1", "rs_3_m1", "rs_m1_2", "flip", "flip0", "roll1", "rollm2_0", "cat_self", "cat_self_m1", "stack0", "stackm1",
    "rc1", "rc2", "rc3", "rc_all", "rc_bal", "rc_tasks", "rc_d0_2",
    "sum", "sum0", "summ1", "sum0k", "sum0_se2", "sum_se2", "sum_se3", "sum_se4", "mean0", "mean", "mean_se2", "maxm1", "min", "min0k",
    "argmax0", "argmin", "argmaxm1_se2", "topk2", "topkm2_0", "var_dd1", "std0", "cumsum0", "cumsumm1_bl", "cumprod0",
    "swv2", "swv3", "swv2_sum", "swv3_sum", "swv3_max", "swv2_mean", "diff", "diff2", "ovl_reflect", "ovl_periodic", "ovl_nearest", "ovl_const",
    "mb_double", "mb_neg", "mb_demean_chunks", "bcast", "where_gt", "clip",
    "wred_a", "wred_b", "rnd_seed1", "rnd_seed2", "rnd_ss_a", "rnd_ss_b", "rnd_rs1", "rnd_rs2", "mbk_a", "mbk_b",
    "b_add", "b_mul", "b_cat",
]


class ConstructorLog:
    """Wraps SingletonExpr.__new__: same returned name but different operands
    passed in = the registry silently dropped the new operands."""

    def __init__(self):
        self.candidates = []
        self.constructions = 0
        self.installed = False
        self.memo = {}

    def install(self):
        from dask._expr import SingletonExpr

        if self.installed:
            return
        orig = SingletonExpr.__new__
        log = self

        def new(cls, *args, _determ_token=None, **kwargs):
            ret = orig(cls, *args, _determ_token=_determ_token, **kwargs)
            log.constructions += 1
            try:
                ops = list(args)
                kw = dict(kwargs)
                for p in cls._parameters[len(ops):]:
                    ops.append(kw.pop(p, cls._defaults.get(p) if hasattr(cls, "_defaults") else None))
                if len(ops) == len(ret.operands):
                    kp = E.structkey(ops, log.memo)
                    kr = E.structkey(list(ret.operands), log.memo)
                    if kp != kr and len(log.candidates) < 200:
                        log.candidates.append((cls.__name__, ret._name))
            except Exception:
                pass
            return ret

        SingletonExpr.__new__ = staticmethod(new)
        self.installed = True


_LOG = ConstructorLog()


def plan(tier, seed):
    srcs = [E.src((8,), ((1,) * 8,)), E.src((3, 4), ((1, 2), (2, 2)))]
    nperm = 4 if tier == "quick" else 32
    if tier != "quick":
        srcs += [E.src((6,), ((3, 3),)), E.src((6,), ((2, 2, 2),), "i8"), E.src((3, 4), ((3,), (4,))), E.src((4, 4), ((2, 2), (1, 3)))]
    if tier == "quick":
        shards = [{"perm": p, "sources": srcs, "depth": 2, "tier": tier} for p in range(nperm)]
    else:
        # every process keeps everything it builds alive (that is the point), so
        # memory bounds what one process can hold: one source per process under
        # 32 different op orders (each source 5-6 times), plus the quick tier's
        # two-source processes under four more orders
        shards = [{"perm": p, "sources": [srcs[p % len(srcs)]], "depth": 2, "tier": tier} for p in range(nperm)] + [{"perm": 100 + p, "sources": srcs[:2], "depth": 2, "tier": tier} for p in range(4)]
    return {
        "shards": shards,
        "workers": min(16, nperm) if tier == "quick" else 5,
        "coverage": {
            "exhaustive": True,
            "bounds": {"depth": 2, "ops": len(VARIANTS), "sources": len(srcs), "independent_long_lived_processes": nperm, "sources_per_process": len(shards[0]["sources"]), "program_order": "one fixed permutation of the op alphabet per process"},
            "rule": "each process builds ALL depth<=2 programs over the parameter-variant alphabet on every source, keeping every collection alive; for each program: value vs NumPy (adjudicates any substitution by the singleton registry / lowering cache), every node of the raw and materialized trees registered name -> (shape, chunks, dtype): must agree on every sighting; every graph key of the materialized graph registered key -> fingerprint of its computed block value: must agree on every sighting across programs; SingletonExpr.__new__ is wrapped to count constructions whose returned instance has other operands than those passed. Non-trivial = name sighted under >= 2 programs",
        },
        "assumptions": ["within one process and one alive set; cross-process determinism is C07", "NumPy reference adjudicates value-level substitutions"],
    }


def run_shard(shard):
    out = ShardOut()
    _LOG.install()
    gc.disable()
    perm = shard["perm"]
    names = [n for n in VARIANTS if n in OPS.BY_NAME]
    rng = random.Random(perm)
    if perm:
        rng.shuffle(names)
    alive = []
    meta_reg = {}  # name -> (shape, chunks, dtype, program)
    key_reg = {}  # graph key -> (fingerprint, program)
    sightings = {}

    def monitor(ctx):
        y, ref = ctx.y, ctx.ref
        alive.append(y)
        out.count("evaluations")
        prog = E.prog_str(ctx.case)
        # 1. value vs NumPy through the public path (registry + caches in play)
        j = M.judge_c01(y, ref, ctx.exact, ctx.check_dtype, None)
        if j is not None and j[0] == "refused":
            return []
        if j is not None:
            kind, tag, msg = j
            return [{"kind": kind, "signature": f"{kind}:{tag + ':' if tag else ''}{E.op_path(ctx.case)}", "detail": msg + "  [in a long-lived process with all earlier collections alive]"}]
        # 2. name -> metadata registry over raw and materialized trees
        try:
            trees = [y.expr, y._lowered_expr]
        except Exception:
            trees = [y.expr]
        for t in trees:
            for node in t.walk():
                try:
                    md = (tuple(node.shape), tuple(node.chunks), str(node.dtype))
                except Exception:
                    continue
                md = repr(md)
                nm = node._name
                sightings[nm] = sightings.get(nm, 0) + 1
                old = meta_reg.get(nm)
                if old is None:
                    meta_reg[nm] = (md, prog)
                elif old[0] != md:
                    return [{"kind": "name-metadata", "signature": f"name-metadata:{type(node).__name__}", "detail": f"name {nm} ({type(node).__name__}) has metadata {md} here but {old[0]} in program [{old[1]}]"}]
        # 3. graph key -> block value registry
        try:
            dsk = y.__dask_graph__()
            graph = S.Graph(dsk, G.flat_keys(y.__dask_keys__()))
            cache, _, _ = S.run_schedule(graph, (), (), monitor=False)
        except NotImplementedError:
            return []
        except Exception as e:
            return [{"kind": "graph-raise", "signature": f"graph-raise:{E.exc_sig(e)}:{E.op_path(ctx.case)}", "detail": f"{type(e).__name__}: {str(e)[:200]}"}]
        for k, v in cache.items():
            fp = S.fingerprint(v)
            old = key_reg.get(k)
            if old is None:
                key_reg[k] = (fp, prog)
                out.count("keys_registered")
            else:
                out.count("key_resightings")
                if old[0] != fp:
                    return [{"kind": "key-value", "signature": f"key-value:{str(k[0] if isinstance(k, tuple) else k).rsplit('-', 1)[0]}", "detail": f"graph key {k} carries a different block value here than in program [{old[1]}]"}]
        return []

    def monitor_with_history(ctx):
        fails = monitor(ctx)
        for f in fails:
            # the failure depends on everything built before it in this
            # process: the replayable case is the whole shard up to here
            f["case"] = dict(ctx.case, perm=perm, all_sources=shard["sources"], depth=shard["depth"], want_signature=f["signature"])
        return fails

    for src in shard["sources"]:
        for first in names:
            sh = {"source": src, "first": first, "ops": names, "depth": shard["depth"], "binary": True}
            ex = E.Explorer(sh, monitor_with_history, out)
            ex.run()
            if shard.get("stop_at") and any(f["signature"] == shard["stop_at"] for f in out.failures):
                return out.result()
    out.count("constructions", _LOG.constructions)
    out.count("constructor_candidates", len(_LOG.candidates))
    for c in _LOG.candidates[:5]:
        out.dcount("constructor_candidate_classes", c[0])
    out.count("nontrivial", sum(1 for v in sightings.values() if v >= 2))
    out.count("names_registered", len(meta_reg))
    return out.result()


def coverage(agg, plan):
    c = agg.counters
    return {"states": len(agg.sets.get("state_keys", ())), "transitions": c["transitions"], "traces_validated_against_impl": c["evaluations"], "evaluations": c["evaluations"], "distinct_nontrivial": c["nontrivial"], "names_registered": c["names_registered"], "key_resightings": c["key_resightings"], "constructions": c["constructions"], "constructor_candidates": c["constructor_candidates"]}


def vacuity(agg, plan):
    c = agg.counters
    v = []
    if c["key_resightings"] < 10000:
        v.append(f"only {c['key_resightings']} graph keys seen under more than one program")
    if c["nontrivial"] < 1000:
        v.append("too few names sighted twice")
    return v


def replay(case):
    """Replays the failing program in a fresh process together with its
    whole shard prefix is not possible from the case alone; the case records
    the permutation and source so the shard is re-run up to the failure."""
    sh = {"perm": case.get("perm", 0), "sources": case.get("all_sources", [case["source"]]), "depth": case.get("depth", 2), "tier": "quick", "stop_at": case.get("want_signature")}
    res = run_shard(sh)
    for f in res["failures"]:
        if f["signature"] == case.get("want_signature"):
            return f
    return res["failures"][0] if res["failures"] and not case.get("want_signature") else None
