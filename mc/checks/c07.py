"""C07 — names are deterministic and survive serialization (E6: cross-process
comparator).

The same bounded program space is built in several FRESH interpreters with
different PYTHONHASHSEED values; the tables program -> (name, keys, optimized
graph keys, chunks, dtype, frisky output keys) must be identical, and
identical to a second build inside the same interpreter.  Every collection is
cloudpickled in interpreter A and loaded in a fresh interpreter B (and in A):
name, keys, chunks, dtype, frisky output keys unchanged, value equal NumPy.
"""

from __future__ import annotations

import hashlib
import json
import os
import pickle
import shutil
import subprocess
import sys

import numpy as np

PROPERTY = "C07"

OPS1 = [
    "sl_1_4", "sl_s2", "sl_rev", "ix_1", "sl2_a", "tk_201", "add1", "add_row", "add_0d", "where_gt", "as_f4", "T", "rs_m1", "exp0", "flip0", "roll1",
    "cat_parts", "stack0", "bcast", "rc2", "rc_all", "rc_bal", "rc_tasks", "sum0", "mean_se2", "argmax0", "topk2", "var_dd1", "cumsum0", "cumsumm1_bl",
    "swv2_sum", "swv3_max", "diff", "ovl_reflect", "bn_move_sum3", "mb_double", "mb_demean_chunks", "mbk_a", "wred_a", "plus_arange", "plus_ones",
    "outer_sincos", "tdot", "einsum_sum", "einsum_all", "einsum_mm_all", "rnd_seed1", "rnd_rs1", "rnd_ss_a", "set_sl", "add_where_out",
]
OPS2 = ["sl_1_4", "add1", "T", "rc2", "sum0", "mean_se2", "cumsum0", "swv2_sum", "mb_double", "cat_parts", "tk_201", "rs_m1"]


def _programs(tier):
    from mc import explorer as E

    srcs = [E.src((6,), ((2, 1, 3),)), E.src((3, 4), ((1, 2), (2, 2)))]
    if tier != "quick":
        srcs += [E.src((6,), ((3, 3),)), E.src((8,), ((1,) * 8,)), E.src((6,), ((2, 2, 2),), "i8"), E.src((4, 4), ((2, 2), (1, 3))), E.src((3, 4), ((3,), (4,)))]
    progs = []
    for si, s in enumerate(srcs):
        progs.append((si, s, []))
        for o1 in OPS1:
            progs.append((si, s, [[o1, [0]]]))
            for o2 in OPS2:
                progs.append((si, s, [[o1, [0]], [o2, [1]]]))
    return srcs, progs


def _t(share, *items):
    """A tuple of equal components that are either ONE object repeated
    (share=True) or distinct equal objects (share=False)."""
    import copy

    first = items[0]
    if share:
        return tuple(first for _ in items)
    return tuple(copy.deepcopy(i) if not isinstance(i, tuple) else tuple(list(i)) for i in items)


# Constructors taking a nested argument with two equal components: the name
# must not depend on whether the caller passed one object twice or two equal
# objects ("equal inputs").  fn(da, np, x, share) with x a 4x4 array.
IDENTITY_VARIANTS = {
    "rechunk-tuples": lambda da, np, x, sh: x.rechunk(_t(sh, (2, 2), (2, 2))),
    "rechunk-dict": lambda da, np, x, sh: x.rechunk(dict(zip((0, 1), _t(sh, (2, 2), (2, 2))))),
    "rechunk-tasks": lambda da, np, x, sh: x.rechunk(_t(sh, (2, 2), (2, 2)), method="tasks"),
    "rechunk-then-add": lambda da, np, x, sh: x.rechunk(_t(sh, (3, 1), (3, 1))) + 1,
    "slice-pair": lambda da, np, x, sh: x[_t(sh, slice(1, 3), slice(1, 3))],
    "take-pair": lambda da, np, x, sh: x[_t(sh, [2, 0, 1], [2, 0, 1])[0]][:, _t(sh, [2, 0, 1], [2, 0, 1])[1]],
    "pad": lambda da, np, x, sh: da.pad(x, _t(sh, (1, 1), (1, 1)), mode="constant"),
    "tile": lambda da, np, x, sh: da.tile(x, _t(sh, 2, 2)),
    "sum-axes": lambda da, np, x, sh: x.sum(axis=(0, 1) if sh else tuple([0, 1])),
    "overlap-depth": lambda da, np, x, sh: da.overlap.overlap(x, depth=dict(zip((0, 1), _t(sh, (1, 1), (1, 1)))), boundary="reflect"),
    "map_overlap": lambda da, np, x, sh: da.map_overlap(np.negative, x, depth=_t(sh, (1, 1), (1, 1)), boundary="reflect", dtype="f8"),
    "reshape": lambda da, np, x, sh: x.reshape(_t(sh, (2, 2), (2, 2))[0] + _t(sh, (2, 2), (2, 2))[1]),
    "broadcast_to": lambda da, np, x, sh: da.broadcast_to(x, _t(sh, (4, 4), (4, 4))[0] + _t(sh, (4, 4), (4, 4))[1]),
    "from_array-equal-data": lambda da, np, x, sh: da.from_array(np.arange(16.0).reshape(4, 4), chunks=_t(sh, (2, 2), (2, 2))),
    "map_blocks-kwargs": lambda da, np, x, sh: da.map_blocks(np.clip, x, dtype="f8", **dict(zip(("a_min", "a_max"), _t(sh, 3.0, 3.0)))),
    "coarsen": lambda da, np, x, sh: da.coarsen(np.sum, x, dict(zip((0, 1), _t(sh, 2, 2)))),
    "ones-chunks": lambda da, np, x, sh: da.ones((4, 4), chunks=_t(sh, (2, 2), (2, 2))),
    "concatenate-equal-leaves": lambda da, np, x, sh: da.concatenate([x, x] if sh else [x, da.from_array(np.arange(16.0).reshape(4, 4), chunks=((2, 2), (1, 3)))]),
    "stack-rechunk": lambda da, np, x, sh: da.stack([x.rechunk(_t(sh, (2, 2), (2, 2))), x.rechunk(_t(True, (2, 2), (2, 2)))]),
}


def _h(obj):
    return hashlib.sha1(repr(obj).encode()).hexdigest()[:16]


def _describe(y):
    """The identity of a collection that must be reproducible."""
    from mc import graphx as G

    d = {"name": y.name, "keys": _h(y.__dask_keys__()), "chunks": repr(y.chunks), "dtype": str(y.dtype)}
    try:
        d["graph_keys"] = _h(sorted(map(str, y.__dask_graph__().keys())))
    except NotImplementedError:
        d["graph_keys"] = "NI"
    except Exception as e:  # noqa: BLE001
        d["graph_keys"] = "ERR:" + type(e).__name__
    try:
        d["frisky"] = _h(y.__frisky_output_keys__())
    except NotImplementedError:
        d["frisky"] = "NI"
    except Exception as e:  # noqa: BLE001
        d["frisky"] = "ERR:" + type(e).__name__
    return d


class Rec:
    """An array-like without __dask_tokenize__ (documented as untokenizable:
    it gets a fixed random token per instance)."""

    def __init__(self, a):
        self.a = a
        self.shape, self.dtype, self.ndim = a.shape, a.dtype, a.ndim

    def __getitem__(self, idx):
        return self.a[idx]

    def __array__(self, dtype=None, copy=None):
        return np.asarray(self.a, dtype=dtype)


def worker_build(tier, outdir, do_pickle, only=None):
    """Runs in a fresh interpreter."""
    import cloudpickle
    import dask_array as da

    from mc import cleanrefs, explorer as E

    cleanrefs.ensure()
    srcs, progs = _programs(tier)
    if only:
        progs = [p for p in progs if f"{p[0]}:" + ">".join(st[0] for st in p[2]) == only]
    table, table2 = {}, {}
    for rnd in (0, 1):
        for si, s, steps in progs:
            pid = f"{si}:" + ">".join(st[0] for st in steps)
            case = {"source": s, "steps": steps}
            try:
                dpool, npool = E.build_program(case, strict=True)
            except Exception:
                continue
            y = dpool[-1]
            d = _describe(y)
            (table if rnd == 0 else table2)[pid] = d
            if rnd == 0 and do_pickle:
                try:
                    blob = cloudpickle.dumps(y)
                    try:
                        y.compute(scheduler="sync")
                        computes = True
                    except Exception:  # noqa: BLE001
                        computes = False  # (a defect of evaluation itself, judged by C01)
                    with open(os.path.join(outdir, "p_" + _h(pid) + ".pkl"), "wb") as f:
                        pickle.dump({"pid": pid, "blob": blob, "desc": d, "ref": np.asarray(npool[-1]), "computes": computes}, f)
                    # same-process round trip
                    y2 = cloudpickle.loads(blob)
                    d2 = _describe(y2)
                    if any(d2[k] != d[k] for k in ("name", "keys", "chunks", "dtype", "frisky")):
                        table.setdefault("__pickle_same_process__", []).append([pid, d, d2])
                except Exception as e:  # noqa: BLE001
                    table.setdefault("__pickle_errors__", []).append([pid, type(e).__name__ + ": " + str(e)[:100]])
    # collections built, inspected and pickled under a NON-default configuration,
    # then unpickled under the default one (here and in the loader process): the
    # pickle must carry what the configuration decided (auto chunks, unification)
    if not only or only.startswith("cfg:"):
        import dask

        cfgs = {
            "small-chunks": {"array.chunk-size": "16B"},
            "refine": {"array.unify-chunks-policy": "refine", "array.chunk-size": "32B"},
            "coarse": {"array.unify-chunks-policy": "coarse"},
        }
        a64 = np.arange(24.0).reshape(6, 4)
        builders = {
            "rng-normal-auto": lambda: da.random.default_rng(1).normal(size=(6, 4), chunks="auto"),
            "rng-poisson-auto": lambda: da.random.default_rng(2).poisson(3.0, size=(6, 4), chunks="auto"),
            "rng-random-auto": lambda: da.random.default_rng(3).random((6, 4), chunks="auto"),
            "rs-normal-auto": lambda: da.random.RandomState(4).normal(size=(6, 4), chunks="auto"),
            "ones-auto": lambda: da.ones((6, 4), chunks="auto") + 1,
            "rechunk-auto": lambda: da.from_array(a64, chunks=(1, 4)).rechunk("auto"),
            "misaligned-add": lambda: da.from_array(a64, chunks=((2, 1, 3), (4,))) + da.from_array(a64 * 2, chunks=((3, 3), (2, 2))),
            "misaligned-add3": lambda: (da.from_array(a64, chunks=((2, 1, 3), (4,))) + da.from_array(a64 * 2, chunks=((3, 3), (2, 2)))) * da.from_array(a64, chunks=((1, 5), (1, 3))),
            "misaligned-add-sliced": lambda: (da.from_array(a64, chunks=((2, 1, 3), (4,))) + da.from_array(a64 * 2, chunks=((3, 3), (2, 2))))[1:5],
        }
        for cname, cfg in cfgs.items():
            for bname, mk in builders.items():
                pid = f"cfg:{cname}:{bname}"
                if only and only != pid:
                    continue
                try:
                    with dask.config.set(cfg):
                        y = mk()
                        d = _describe(y)
                        val = y.compute(scheduler="sync")
                        blob = cloudpickle.dumps(y)
                    table[pid], table2[pid] = d, d
                    if not do_pickle:
                        continue
                    with open(os.path.join(outdir, "p_" + _h(pid) + ".pkl"), "wb") as f:
                        pickle.dump({"pid": pid, "blob": blob, "desc": d, "ref": np.asarray(val), "computes": True}, f)
                    y2 = cloudpickle.loads(blob)  # default configuration from here on
                    d2 = _describe(y2)
                    if any(d2[k] != d[k] for k in ("name", "keys", "chunks", "dtype", "frisky")):
                        table.setdefault("__pickle_same_process__", []).append([pid, d, d2])
                    elif not np.array_equal(y2.compute(scheduler="sync"), val):
                        table.setdefault("__pickle_same_process__", []).append([pid, dict(d, value="as computed before pickling"), dict(d2, value="differs")])
                except Exception as e:  # noqa: BLE001
                    table.setdefault("__pickle_errors__", []).append([pid, type(e).__name__ + ": " + str(e)[:100]])
    # untokenizable source: stable per instance, across repeated access and pickle
    r = Rec(np.arange(6.0))
    x = da.from_array(r, chunks=2)
    n1, n2 = x.name, x.name
    y = (x + 1)[1:4]
    yb = cloudpickle.loads(cloudpickle.dumps(y))
    table["__rec__"] = {"stable_access": n1 == n2, "pickle_same": yb.name == y.name and yb.__dask_keys__() == y.__dask_keys__(), "value_ok": bool(np.array_equal(yb.compute(scheduler="sync"), (np.arange(6.0) + 1)[1:4]))}
    x44 = da.from_array(np.arange(16.0).reshape(4, 4), chunks=((2, 2), (1, 3)))
    idv = {}
    for label, fn in IDENTITY_VARIANTS.items():
        if only and only != "id:" + label:
            continue
        try:
            ya, yb = fn(da, np, x44, True), fn(da, np, x44, False)
            da_, db_ = _describe(ya), _describe(yb)
            va, vb = ya.compute(scheduler="sync"), yb.compute(scheduler="sync")
            idv[label] = {"same": da_ == db_, "a": da_, "b": db_, "value_same": bool(np.array_equal(va, vb))}
            table["id:" + label], table2["id:" + label] = da_, da_
        except Exception as e:  # noqa: BLE001
            idv[label] = {"error": type(e).__name__ + ": " + str(e)[:100]}
    table["__identity__"] = idv
    diffs = [pid for pid in table if not pid.startswith("__") and table2.get(pid) != table[pid]]
    table["__rebuild_diffs__"] = diffs
    with open(os.path.join(outdir, "table.json"), "w") as f:
        json.dump(table, f)


def worker_load(indir, outfile):
    """Runs in another fresh interpreter: load every pickle, describe, compute."""
    import cloudpickle

    from mc import explorer as E

    res = {}
    for fn in sorted(os.listdir(indir)):
        if not fn.endswith(".pkl"):
            continue
        with open(os.path.join(indir, fn), "rb") as f:
            rec = pickle.load(f)
        try:
            y = cloudpickle.loads(rec["blob"])
            d = _describe(y)
            # the property promises name, keys, chunks, dtype and frisky output
            # keys across a pickle round trip (not the interior optimized keys)
            same = all(d[k] == rec["desc"][k] for k in ("name", "keys", "chunks", "dtype", "frisky"))
            entry = {"desc_equal": same, "desc": d, "orig": rec["desc"]}
            try:
                val = y.compute(scheduler="sync")
                bad = E.compare(val, rec["ref"], exact=False, dtype=False)
                entry["value"] = None if bad is None else bad[1]
            except NotImplementedError:
                entry["value"] = None
            except Exception as e:  # noqa: BLE001
                entry["value"] = None if not rec.get("computes", True) else f"compute raised {type(e).__name__}: {str(e)[:100]}"
        except Exception as e:  # noqa: BLE001
            entry = {"desc_equal": False, "load_error": type(e).__name__ + ": " + str(e)[:100]}
        res[rec["pid"]] = entry
    with open(outfile, "w") as f:
        json.dump(res, f)


def _spawn(args, hashseed):
    from mc.common import PY, REPO, VERIF

    env = dict(os.environ)
    env.pop("_VERIF_REEXEC", None)
    env["PYTHONPATH"] = os.pathsep.join([REPO, VERIF])
    env["PYTHONHASHSEED"] = hashseed
    return subprocess.Popen([PY, "-m", "mc.checks.c07"] + args, env=env, cwd=VERIF, stdout=subprocess.PIPE, stderr=subprocess.PIPE, text=True)


def plan(tier, seed):
    srcs, progs = _programs(tier)
    return {
        "shards": [{"tier": tier, "seed": seed}],
        "workers": 1,
        "coverage": {
            "exhaustive": True,
            "bounds": {"programs": len(progs), "interpreters": 3, "hash_seeds": ["0", "1", "random"], "depth": 2, "ops_first": len(OPS1), "ops_second": len(OPS2), "sources": len(srcs)},
            "rule": "every program of the depth<=2 space (named module-level functions only) is built in three fresh interpreters (PYTHONHASHSEED 0, 1, random) and twice inside each: name, __dask_keys__, sorted optimized graph keys, chunks, dtype and frisky output keys must be identical everywhere; every collection is cloudpickled in interpreter A and loaded in A and in a fresh interpreter B: identity unchanged, value equal NumPy; collections built, inspected and pickled under three non-default configurations (chunk-size 16B / unify-chunks-policy refine / coarse; auto-chunked random arrays, ones, rechunk('auto'), misaligned elemwise) keep identity and value when unpickled under the default configuration in the same and in a fresh process; for every constructor of IDENTITY_VARIANTS (nested arguments with two equal components: rechunk tuples/dict, slice pairs, index lists, pad widths, reps, axes, overlap depths, reshape/broadcast shapes, chunks, kwargs, equal leaves) both sharing patterns (one object twice / two equal objects) give the same identity; an untokenizable source keeps its name per instance and across the round trip. Non-trivial = program with >= 1 op",
        },
        "assumptions": ["tokenization of callables is dask.tokenize's (module-level functions only)", "scratch files live under /verif/.scratch and are removed"],
    }


def run_shard(shard):
    from mc.common import VERIF, ShardOut

    out = ShardOut()
    tier = shard["tier"]
    root = os.path.join(VERIF, ".scratch", f"c07-{os.getpid()}")
    shutil.rmtree(root, ignore_errors=True)
    dirs = {}
    procs = []
    for label, hs in (("A", "0"), ("B", "1"), ("C", "random")):
        d = os.path.join(root, label)
        os.makedirs(d)
        dirs[label] = d
        procs.append((label, _spawn(["build", tier, d, "1" if label == "A" else "0", shard.get("only") or ""], hs)))
    tables = {}
    try:
        for label, p in procs:
            so, se = p.communicate(timeout=3000)
            if p.returncode != 0:
                raise RuntimeError(f"builder {label} failed: {se[-1500:]}")
            with open(os.path.join(dirs[label], "table.json")) as f:
                tables[label] = json.load(f)
        pl = _spawn(["load", dirs["A"], os.path.join(root, "loaded.json")], "12345")
        so, se = pl.communicate(timeout=3000)
        if pl.returncode != 0:
            raise RuntimeError(f"loader failed: {se[-1500:]}")
        with open(os.path.join(root, "loaded.json")) as f:
            loaded = json.load(f)
    finally:
        shutil.rmtree(root, ignore_errors=True)
    A = tables["A"]
    pids = [p for p in A if not p.startswith("__")]
    out.count("evaluations", len(pids))
    out.count("transitions", len(pids) * 4)
    for p in pids:
        out.sadd("state_keys", hash(p))
        if ">" in p or p.split(":")[1]:
            out.count("nontrivial")

    def fail(kind, pid, msg):
        lastop = pid.split(":", 1)[1].split(">")[-1] if ":" in pid else pid
        out.fail({"kind": kind, "signature": f"{kind}:{lastop}", "case": {"pid": pid, "tier": tier}, "detail": f"program {pid}: {msg}"})

    for label in ("B", "C"):
        T = tables[label]
        for p in pids:
            if p not in T:
                fail("missing-in-process", p, f"program builds in interpreter A but not in {label}")
            elif T[p] != A[p]:
                diff = {k: (A[p][k], T[p][k]) for k in A[p] if A[p][k] != T[p].get(k)}
                fail("cross-process-" + sorted(diff)[0], p, f"interpreter A vs {label} (other PYTHONHASHSEED) differ in {diff}")
    for label, T in tables.items():
        for p in T.get("__rebuild_diffs__", []):
            fail("rebuild-in-process", p, f"building the same program twice in interpreter {label} gave different identities")
        for lab, e in T.get("__identity__", {}).items():
            out.count("identity_variants")
            if "error" in e:
                out.count("identity_variant_errors")
            elif not e["same"]:
                diff = {k: (e["a"][k], e["b"][k]) for k in e["a"] if e["a"][k] != e["b"][k]}
                fail("identity-of-equal-arguments", "id:" + lab, f"passing one object twice vs two equal objects changes the identity in interpreter {label}: {diff}")
            elif not e["value_same"]:
                fail("identity-variant-value", "id:" + lab, "equal arguments computed different values")
        rec = T.get("__rec__", {})
        for k, v in rec.items():
            if not v:
                fail("untokenizable-source", "rec:" + k, f"untokenizable source: {k} is False in interpreter {label}")
    for pid, d1, d2 in A.get("__pickle_same_process__", []):
        diff = {k: (d1[k], d2.get(k)) for k in d1 if d1[k] != d2.get(k)}
        fail("pickle-same-process-" + sorted(diff)[0], pid, f"cloudpickle round trip in the same process changed {diff}")
    for pid, err in A.get("__pickle_errors__", []):
        fail("pickle-error", pid, err)
    out.count("pickled", len(loaded))
    for pid, e in loaded.items():
        if "load_error" in e:
            fail("unpickle-error", pid, e["load_error"])
        elif not e["desc_equal"]:
            diff = {k: (e["orig"][k], e["desc"].get(k)) for k in e["orig"] if e["orig"][k] != e["desc"].get(k)}
            fail("pickle-cross-process-" + sorted(diff)[0], pid, f"loading in a fresh interpreter changed {diff}")
        elif e.get("value"):
            fail("pickle-value", pid, f"unpickled collection computes differently: {e['value']}")
    out.count("accepted", len(pids))
    out.sample({"program": pids[min(40, len(pids) - 1)], "identity": A[pids[min(40, len(pids) - 1)]]})
    return out.result()


def coverage(agg, plan):
    c = agg.counters
    return {"states": len(agg.sets.get("state_keys", ())), "transitions": c["transitions"], "traces_validated_against_impl": c["accepted"], "evaluations": c["evaluations"], "distinct_nontrivial": c["nontrivial"], "pickled": c["pickled"]}


def vacuity(agg, plan):
    c = agg.counters
    v = []
    if c["evaluations"] < 500:
        v.append(f"only {c['evaluations']} programs")
    if c["pickled"] < 500:
        v.append(f"only {c['pickled']} pickles crossed processes")
    return v


def replay(case):
    res = run_shard({"tier": case.get("tier", "quick"), "seed": 0, "only": case["pid"]})
    for f in res["failures"]:
        if f["case"]["pid"] == case["pid"]:
            return f
    return None


if __name__ == "__main__":
    mode = sys.argv[1]
    if mode == "build":
        worker_build(sys.argv[2], sys.argv[3], sys.argv[4] == "1", (sys.argv[5] if len(sys.argv) > 5 else "") or None)
    elif mode == "load":
        worker_load(sys.argv[2], sys.argv[3])
