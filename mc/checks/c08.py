"""C08 — optimization terminates and is idempotent (E1)."""
from mc import e1check as X
from mc import monitors as M

_m = X.make(
    "C08", M.judge_c08,
    quick=X.std_quick(), thorough=X.std_thorough(),
    rule="every program of the E1 space: simplify/lower/fuse/optimize return within 20 s of CPU time (ITIMER_VIRTUAL watchdog, independent of machine load; 600 s wall-clock backstop) and raise only if the unoptimized compute raises; simplify and optimize are idempotent on names (expression and collection level); non-trivial = a node with > 1 block",
    assumptions=["20 s of CPU time per program stands for non-termination (three orders of magnitude above the norm)", "small scope as C01"],
    floors={"simplify_changed": 100, "lower_changed": 100, "fuse_changed": 50},
)
globals().update(_m)
