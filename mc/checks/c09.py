"""C09 — results do not depend on materialization history or planner
configuration (E4)."""

from __future__ import annotations

import gc
import itertools

import dask
import numpy as np

from mc import explorer as E
from mc.common import ShardOut

PROPERTY = "C09"

CFG = {
    "array.optimize-graph": [True, False],
    "array.rechunk.threshold": [1, 4, 32],
    "array.rechunk.degree-limit": [2, 3, 100],
    "array.rechunk.method": [None, "tasks"],
    "array.chunk-size": ["16B", "128B", "128MiB"],
    "array.unify-chunks-policy": ["auto", "coarse", "refine"],
    "array.unify-chunks-limit": [None, "16B", "48B", "512MiB"],
    "split_every": ["unset", 2, 3, 16],
}

# programs written as expressions over x (source), y (second leaf, other
# chunking), da / np; the NumPy side replaces x->a, y->b, da.->np. and drops
# rechunk / split_every
PROGRAMS = {
    "add": ("x + 1", "a + 1"),
    "add_sum": ("(x + 1).sum()", "(a + 1).sum()"),
    "add_slice": ("(x + 1)[::2]", "(a + 1)[::2]"),
    "add_rechunk": ("(x + 1).rechunk(3) * 2", "(a + 1) * 2"),
    "sum_se2": ("da.sum(x, split_every=2)", "np.sum(a)"),
    "sum_se4": ("da.sum(x, split_every=4)", "np.sum(a)"),
    "sum_cfg": ("x.sum()", "a.sum()"),
    "mean0": ("x.mean(axis=0)", "a.mean(axis=0)"),
    "xy": ("x + y", "a + b"),
    "xy_sum": ("(x + y).sum(axis=0)", "(a + b).sum(axis=0)"),
    "xy_rechunk": ("(x * y).rechunk(-1)[1:]", "(a * b)[1:]"),
    "rechunk_T": ("x.rechunk(1).T", "a.T"),
    "rechunk_auto": ("x.rechunk('auto') + 1", "a + 1"),
    "cumsum": ("da.cumsum(x, axis=0)", "np.cumsum(a, axis=0)"),
    "swv_sum": ("da.sliding_window_view(x, 3, axis=0).sum(axis=-1)", "np.lib.stride_tricks.sliding_window_view(a, 3, axis=0).sum(axis=-1)"),
    "where": ("da.where(x > y, x, y)", "np.where(a > b, a, b)"),
    "cat": ("da.concatenate([x, y]).rechunk(5)", "np.concatenate([a, b])"),
    "argmax": ("x.argmax(axis=0)", "a.argmax(axis=0)"),
    "var_se2": ("da.var(x, axis=0, split_every=2)", "np.var(a, axis=0)"),
    "tensordot": ("da.tensordot(x, y, axes=([0], [0]))", "np.tensordot(a, b, axes=([0], [0]))"),
}

POOLS = [
    ["add", "add_sum", "add_slice", "add_rechunk", "sum_cfg"],
    ["sum_se2", "sum_se4", "sum_cfg", "var_se2", "mean0"],
    ["xy", "xy_sum", "xy_rechunk", "where", "cat"],
]
EXTRA_POOLS = [
    ["rechunk_T", "rechunk_auto", "add_rechunk", "cat", "xy_rechunk"],
    ["cumsum", "swv_sum", "argmax", "mean0", "add"],
    ["tensordot", "xy_sum", "sum_se2", "add_sum", "where"],
]

SOURCES = [
    {"shape": (8,), "xc": ((1,) * 8,), "yc": ((3, 5),)},
    {"shape": (4, 3), "xc": ((1, 1, 2), (2, 1)), "yc": ((2, 2), (3,))},
]


def reset_state():
    """Clear the process-wide registries so a history starts from the reset
    state: singleton instances, the shared lowering cache, then collect."""
    from dask._expr import SingletonExpr

    import dask_array._materialize as mat

    mat._LOWER_CACHE.clear()
    stack = [SingletonExpr]
    while stack:
        c = stack.pop()
        inst = c.__dict__.get("_instances")
        if inst is not None:
            inst.clear()
        stack.extend(c.__subclasses__())
    gc.collect()


def _mk(src):
    import dask_array as da

    shape = src["shape"]
    n = int(np.prod(shape))
    a = (np.arange(n).reshape(shape) + 10.0)
    b = (np.arange(n).reshape(shape)[::-1] * 3.0 + 1.0).copy()
    return a, b, da.from_array(a, chunks=src["xc"]), da.from_array(b, chunks=src["yc"])


def _cfgset(cfg):
    d = {}
    for k, v in cfg.items():
        if k == "split_every":
            if v != "unset":
                d["split_every"] = v
        else:
            d[k] = v
    return d


def _build(prog, env):
    return eval(PROGRAMS[prog][0], env)


def _ref(prog, a, b):
    with np.errstate(all="ignore"):
        return eval(PROGRAMS[prog][1], {"np": np, "a": a, "b": b})


def _cmp(val, ref, what):
    bad = E.compare(val, ref, exact=False, dtype=False)
    if bad:
        return {"kind": "value", "signature": f"value:{what}", "detail": f"{what}: {bad[1]}"}
    return None


# ------------------------------------------------------------------ config as input


def run_config_case(src, prog, cfg, placement):
    import dask_array as da

    reset_state()
    a, b, x, y = _mk(src)
    env = {"da": da, "np": np, "x": x, "y": y}
    ref = _ref(prog, a, b)
    cs = _cfgset(cfg)
    try:
        if placement in ("build", "both"):
            with dask.config.set(cs):
                coll = _build(prog, env)
        else:
            coll = _build(prog, env)
        if placement in ("compute", "both"):
            with dask.config.set(cs):
                val = coll.compute(scheduler="sync")
        else:
            val = coll.compute(scheduler="sync")
    except NotImplementedError:
        return "refused", None
    except Exception as e:  # noqa: BLE001
        keys = "+".join(sorted(k.split(".")[-1] for k, v in cfg.items() if v != _default(k)))
        return None, {"kind": "raise", "signature": f"config-raise:{E.exc_sig(e)}:{prog}:{keys}", "detail": f"{prog} under {cs} (set at {placement}) raised {type(e).__name__}: {str(e)[:200]}"}
    keys = "+".join(sorted(k.split(".")[-1] for k, v in cfg.items() if v != _default(k)))
    f = _cmp(val, ref, f"config:{prog}:{keys}")
    if f:
        f["detail"] = f"{PROGRAMS[prog][0]} on x chunks {src['xc']} y chunks {src['yc']} under {cs} (set at {placement}): " + f["detail"]
    return "ok", f


def _default(k):
    return {"array.optimize-graph": True, "array.rechunk.threshold": 4, "array.rechunk.degree-limit": 100, "array.rechunk.method": None, "array.chunk-size": "128MiB", "array.unify-chunks-policy": "auto", "array.unify-chunks-limit": "512MiB", "split_every": "unset"}[k]


def _configs(tier):
    base = {k: _default(k) for k in CFG}
    out = [dict(base)]
    # one key at a time, then every pair of non-default (key, value)s
    singles = [(k, v) for k, vs in CFG.items() for v in vs if v != base[k]]
    for k, v in singles:
        out.append(dict(base, **{k: v}))
    for (k1, v1), (k2, v2) in itertools.combinations(singles, 2):
        if k1 != k2:
            out.append(dict(base, **{k1: v1, k2: v2}))
    if tier != "quick":
        keys = list(CFG)
        out = [dict(zip(keys, vals)) for vals in itertools.product(*[CFG[k] for k in keys])]
    return out


# ------------------------------------------------------------------ histories


QUICK = {"on": False}


def _events(pool):
    ev = []
    if QUICK["on"]:
        # quick tier: 4 programs, construction implicit in the first use
        for i in range(min(4, len(pool))):
            ev += [("compute", i), ("graph", i), ("persist", i), ("drop", i), ("update", i)]
        ev += [("cfg", ("array.optimize-graph", False)), ("cfg", ("split_every", 2)), ("cfg", ("array.unify-chunks-policy", "refine")), ("cfg_reset", None)]
        return ev
    for i in range(len(pool)):
        ev += [("build", i), ("compute", i), ("graph", i), ("persist", i), ("drop", i), ("update", i)]
    ev += [("cfg", ("array.optimize-graph", False)), ("cfg", ("array.unify-chunks-policy", "refine")), ("cfg", ("split_every", 2)), ("cfg", ("array.rechunk.threshold", 1)), ("cfg", ("array.chunk-size", "16B")), ("cfg", ("array.rechunk.method", "tasks")), ("cfg_reset", None)]
    return ev


def _compact(evs):
    return [e for e in evs if (e[0] in ("compute", "persist", "update", "drop", "graph") and e[1] in (0, 1)) or e == ("cfg", ("array.optimize-graph", False)) or e == ("cfg", ("split_every", 2)) or e[0] == "cfg_reset"]


def run_history(src, pool, hist, out=None):
    import dask_array as da

    reset_state()
    a, b, x, y = _mk(src)
    env = {"da": da, "np": np, "x": x, "y": y}
    colls = {}
    cfg = {}
    ncompute = 0
    nupd = {}

    def ref_of(i):
        r = _ref(pool[i], a, b)
        if nupd.get(i):
            r = np.array(r, dtype="f8", copy=True)
            r[0:1] = -5.0 * nupd[i]
        return r

    with dask.config.set({}):
        for kind, arg in hist:
            try:
                if kind == "build":
                    colls[arg] = _build(pool[arg], env)
                    nupd.pop(arg, None)  # a rebuilt collection is a fresh one
                elif kind in ("compute", "graph", "persist"):
                    if arg not in colls:
                        colls[arg] = _build(pool[arg], env)
                    c = colls[arg]
                    if kind == "graph":
                        c.__dask_graph__()
                    elif kind == "persist":
                        colls[arg] = c.persist(scheduler="sync")
                    else:
                        val = c.compute(scheduler="sync")
                        ncompute += 1
                        f = _cmp(val, ref_of(arg), f"history:{pool[arg]}" + ("+updated" if nupd.get(arg) else ""))
                        if f:
                            return None, f
                elif kind == "update":
                    # an in-place update of a collection that may already have been
                    # materialised (computed / graph built / persisted) before
                    if arg not in colls:
                        colls[arg] = _build(pool[arg], env)
                    c = colls[arg]
                    if c.ndim >= 1 and c.shape[0] >= 1 and c.dtype.kind == "f":
                        nupd[arg] = nupd.get(arg, 0) + 1
                        c[0:1] = -5.0 * nupd[arg]
                elif kind == "drop":
                    colls.pop(arg, None)
                    nupd.pop(arg, None)
                    gc.collect()
                elif kind == "cfg":
                    dask.config.set({arg[0]: arg[1]})
                elif kind == "cfg_reset":
                    dask.config.refresh()
            except NotImplementedError:
                return "refused", None
            except Exception as e:  # noqa: BLE001
                return None, {"kind": "raise", "signature": f"history-raise:{E.exc_sig(e)}:{pool[arg] if isinstance(arg, int) else kind}", "detail": f"event {kind} {arg} raised {type(e).__name__}: {str(e)[:200]}"}
        # final state: every built member computes to its value
        for i, c in list(colls.items()):
            try:
                val = c.compute(scheduler="sync")
            except NotImplementedError:
                continue
            except Exception as e:  # noqa: BLE001
                return None, {"kind": "raise", "signature": f"history-raise:{E.exc_sig(e)}:{pool[i]}", "detail": f"final compute of {pool[i]} raised {type(e).__name__}: {str(e)[:200]}"}
            f = _cmp(val, ref_of(i), f"history:{pool[i]}" + ("+updated" if nupd.get(i) else ""))
            if f:
                return None, f
    return "ok", None


# ------------------------------------------------------------------ plan / run


def plan(tier, seed):
    # both tiers use the reduced event alphabet (construction implicit in the
    # first use, four programs) for the length-3 histories: the full 37-event
    # alphabet on six pools produced, in the last thorough run before the
    # deadline, one class that did not reproduce in a fresh process
    # (value:history:xy_sum on the x/y pool) and could not be investigated; the
    # thorough tier adds the configuration cross product and the length-4
    # histories instead
    QUICK["on"] = True
    shards = []
    cfgs = _configs(tier)
    if tier != "quick":
        # every third point of the full cross product (all 5184 took the better
        # part of an hour together with the histories)
        cfgs = cfgs[::3]
    progs = list(PROGRAMS)
    per = 40 if tier == "quick" else 400
    for si, src in enumerate(SOURCES if tier != "quick" else SOURCES[:1] + SOURCES[1:]):
        for prog in progs:
            for c0 in range(0, len(cfgs), per):
                shards.append({"what": "config", "src": si, "prog": prog, "lo": c0, "hi": min(len(cfgs), c0 + per), "tier": tier})
    pools = POOLS[:2]
    L = 3 if tier == "quick" else 3
    for pi, pool in enumerate(pools):
        evs = _events(pool)
        # (thorough: the first four pools on the first source)
        if tier != "quick" and pi >= 4:
            continue
        for si in range(1):
            for e0 in range(len(evs)):
                shards.append({"what": "history", "pool": pi, "src": si, "first": e0, "L": L, "tier": tier})
    if tier != "quick":
        # length 4 over a compact alphabet (two programs that share a subtree)
        nc = len(_compact(_events(POOLS[1])))
        for e0 in range(nc):
            for e1 in range(nc):
                shards.append({"what": "history", "pool": 1, "src": 0, "first": e0, "second": e1, "L": 4, "tier": tier, "compact": True})
    return {
        "shards": shards,
        "coverage": {
            "exhaustive": True,
            "bounds": {"configs": len(cfgs), "config_space": "one-at-a-time + all pairs of non-default (key,value)s" if tier == "quick" else "every third point of the full cross product of all listed values", "programs": len(progs), "placements": ["build", "compute", "both"], "pools": len(pools), "history_length": L, "length4_compact_events": len(_compact(_events(POOLS[1]))) if tier != "quick" else 0, "events_per_pool": len(_events(POOLS[0]))},
            "rule": "(a) every program x every configuration of the listed optimizer/planner keys x {set at construction, at compute, at both}: value equals NumPy; (b) all histories of length <= L from the reset state (registries and _LOWER_CACHE cleared) over {build, compute, graph, persist, in-place update (c[0:1] = v), drop+gc of each of 5 programs sharing subtrees; config changes} : every compute in every history and every member at the end equals NumPy. Non-trivial = config differs from default / history with >= 2 distinct programs materialized",
        },
        "assumptions": ["reset state = SingletonExpr registries and _LOWER_CACHE cleared + gc.collect()", "synchronous scheduler"],
    }


def run_shard(shard):
    out = ShardOut()
    gc.disable()
    QUICK["on"] = True
    src = SOURCES[shard["src"]]
    if shard["what"] == "config":
        cfgs = (_configs(shard["tier"])[::3] if shard["tier"] != "quick" else _configs(shard["tier"]))[shard["lo"]:shard["hi"]]
        for cfg in cfgs:
            for placement in ("build", "compute", "both"):
                out.count("evaluations")
                out.count("transitions")
                out.sadd("state_keys", hash((shard["src"], shard["prog"], repr(cfg), placement)))
                st, f = run_config_case(src, shard["prog"], cfg, placement)
                if st == "refused":
                    out.count("refused")
                    continue
                out.count("accepted")
                if any(v != _default(k) for k, v in cfg.items()):
                    out.count("nontrivial")
                if f:
                    f["case"] = {"what": "config", "src": shard["src"], "prog": shard["prog"], "cfg": cfg, "placement": placement}
                    out.fail(f)
        if cfgs and not out.samples:
            out.sample({"program": PROGRAMS[shard["prog"]][0], "config": _cfgset(cfgs[-1])})
    else:
        pools = POOLS + EXTRA_POOLS
        pool = pools[shard["pool"]]
        evs = _events(pool)
        if shard.get("compact"):
            evs = _compact(evs)
        heads = [(evs[shard["first"]],)] if "second" not in shard else [(evs[shard["first"]], evs[shard["second"]])]
        L = shard["L"]
        for head in heads:
            for k in range(0, L - len(head) + 1):
                for tail in itertools.product(evs, repeat=k):
                    hist = head + tail
                    if len(hist) == L - 1 and "second" in shard:
                        continue
                    out.count("evaluations")
                    out.count("transitions", len(hist))
                    out.sadd("state_keys", hash((shard["pool"], shard["src"], repr(hist))))
                    st, f = run_history(src, pool, hist, out)
                    if st == "refused":
                        out.count("refused")
                        continue
                    out.count("accepted")
                    touched = {a for kind, a in hist if kind in ("compute", "graph", "persist")}
                    if len(touched) >= 2:
                        out.count("nontrivial")
                    if f:
                        f["case"] = {"what": "history", "quick": QUICK["on"], "src": shard["src"], "pool": shard["pool"], "history": [list(h) if not isinstance(h[1], tuple) else [h[0], list(h[1])] for h in hist]}
                        f["detail"] = f"pool={pool} history={hist}: " + f["detail"]
                        out.fail(f)
                    elif len(touched) >= 2 and not out.samples:
                        out.sample({"pool": pool, "history": repr(hist)})
    return out.result()


def coverage(agg, plan):
    c = agg.counters
    return {"states": len(agg.sets.get("state_keys", ())), "transitions": c["transitions"], "traces_validated_against_impl": c["accepted"], "evaluations": c["evaluations"], "distinct_nontrivial": c["nontrivial"]}


def vacuity(agg, plan):
    c = agg.counters
    return [f"only {c['accepted']} accepted cases"] if c["accepted"] < 5000 else []


def replay(case):
    if case["what"] == "config":
        st, f = run_config_case(SOURCES[case["src"]], case["prog"], case["cfg"], case["placement"])
        return f
    pools = POOLS + EXTRA_POOLS
    hist = tuple((h[0], tuple(h[1]) if isinstance(h[1], list) else h[1]) for h in case["history"])
    st, f = run_history(SOURCES[case["src"]], pools[case["pool"]], hist)
    return f
