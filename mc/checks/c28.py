"""C28 — unknown chunk sizes are resolved exactly or refused (E1)."""

from __future__ import annotations

import itertools
import math

import numpy as np

from mc import explorer as E
from mc import graphx as G
from mc import ops as OPS
from mc.common import ShardOut
from mc.domains import compositions, masks_1d

PROPERTY = "C28"

# ops with recorded findings on zero-size blocks / unknown sizes come last: a
# case reports its first failing follow-on, so nothing hides behind them
FOLLOW = [
    "sl_1_4", "sl_2_", "sl__1", "sl_m2", "sl_s2", "sl_rev", "ix_1", "ix_m1", "ix_none", "tk_00", "tk_m1_0", "add1", "mul2", "neg", "gt12", "where_gt", "add_row",
    "T", "exp0", "flip", "cat_self", "stack0", "bcast", "rc2", "rc_all", "rc1",
    "sum", "sum0", "mean", "cumsum0", "cumsumm1_bl", "swv2_sum", "diff", "mb_double", "topk2", "nansum0", "sum_se2",
    "cat_known", "cat_known_first", "plus_np_len1", "plus_np_len2", "plus_np_len3", "plus_np_len4", "plus_da_len2", "plus_da_len3", "plus_da_len4",
    "ravel", "rs_m1", "roll1", "maxm1", "min", "var_dd1", "std0", "argmax0", "argmin", "squeeze",
]

PRODUCERS_1D = {
    "npmask": ("x[{mask}]", "a[{mask}]"),
    "daskmask": ("x[da.from_array({mask}, chunks={mc})]", "a[{mask}]"),
    "gt": ("x[x > {k}]", "a[a > {k}]"),
    "unique": ("da.unique(x // 2)", "np.unique(a // 2)"),
    "nonzero": ("da.nonzero(x > {k})[0]", "np.nonzero(a > {k})[0]"),
    "flatnonzero": ("da.flatnonzero(x > {k})", "np.flatnonzero(a > {k})"),
    "argwhere": ("da.argwhere(x > {k})", "np.argwhere(a > {k})"),
}
PRODUCERS_2D = {
    "rowmask": ("x[{mask0}]", "a[{mask0}]"),
    "colmask": ("x[:, {mask1}]", "a[:, {mask1}]"),
    "fullmask": ("x[x > {k}]", "a[a > {k}]"),
    "coldaskmask": ("x[:, da.from_array({mask1}, chunks=2)]", "a[:, {mask1}]"),
    "colcompress": ("da.compress(da.from_array({mask1}, chunks=3), x, axis=1)", "np.compress({mask1}, a, axis=1)"),
    "rowdaskmask": ("x[da.from_array({mask0}, chunks=2)]", "a[{mask0}]"),
    "argwhere": ("da.argwhere(x > {k})", "np.argwhere(a > {k})"),
    "nonzero1": ("da.nonzero(x > {k})[1]", "np.nonzero(a > {k})[1]"),
}


def _true_chunks(y):
    """Per-block sizes along every axis as the graph really produces them."""
    blocks = G.get_blocks(G.fresh(y).__dask_graph__(), y.__dask_keys__())
    nb = y.numblocks
    if not nb:
        return ()
    arr = np.empty(nb, dtype=object)
    for idx in itertools.product(*[range(n) for n in nb]):
        b = blocks
        for i in idx:
            b = b[i]
        arr[idx] = np.shape(b)
    chunks = []
    for ax in range(len(nb)):
        sizes = []
        for i in range(nb[ax]):
            idx = [0] * len(nb)
            idx[ax] = i
            sizes.append(arr[tuple(idx)][ax])
        chunks.append(tuple(int(s) for s in sizes))
    return tuple(chunks)


def run_case(case, out=None):
    import dask_array as da

    a, x = E.make_source(case["source"])
    env = {"da": da, "np": np, "x": x, "a": a}
    desc = f"{E.prog_str({'source': case['source'], 'steps': []})} ; {case['expr']}"
    try:
        ref = eval(case["nexpr"], env)
    except Exception:
        return "invalid", None
    try:
        y = eval(case["expr"], env)
    except NotImplementedError:
        return "refused", None
    except Exception as e:  # noqa: BLE001
        return None, {"kind": "producer-raise", "signature": f"producer-raise:{case['producer']}:{E.exc_sig(e)}", "detail": desc + f" raised {type(e).__name__}: {str(e)[:200]}"}
    unknown = any(isinstance(s, float) and math.isnan(s) for c in y.chunks for s in c)
    if out is not None and unknown:
        out.count("unknown_producers")
    zb = ""
    fails = None
    # (b) without compute_chunk_sizes: each follow-on op raises or returns NumPy's result
    if case["mode"] == "raw":
        for fname in FOLLOW:
            op = OPS.BY_NAME[fname]
            if not op.applies(np.asarray(ref)):
                continue
            try:
                with np.errstate(all="ignore"):
                    fref = op.numpy(ref)
            except Exception:
                continue
            if out is not None:
                out.count("follow_on")
            try:
                z = op.dask(da, y)
                val = z.compute(scheduler="sync")
            except Exception:
                if out is not None:
                    out.count("follow_on_raised")
                continue  # raising is the allowed alternative
            bad = E.compare(val, fref, exact=op.exact, dtype=False)
            if bad:
                return None, {"kind": "unknown-" + bad[0], "signature": f"unknown-{bad[0]}:{case['producer']}>{fname}", "detail": desc + f" ; {fname} (sizes still unknown) returned instead of raising: {bad[1]}"}
            zshape = tuple(z.shape)
            if not any(isinstance(s, float) and math.isnan(s) for s in zshape) and zshape != np.shape(fref):
                return None, {"kind": "unknown-meta-shape", "signature": f"unknown-meta-shape:{case['producer']}>{fname}", "detail": desc + f" ; {fname}: advertised shape {zshape} != numpy {np.shape(fref)}"}
        # the producer itself
        try:
            val = y.compute(scheduler="sync")
        except Exception as e:  # noqa: BLE001
            return None, {"kind": "producer-compute-raise", "signature": f"producer-compute-raise:{case['producer']}:{E.exc_sig(e)}", "detail": desc + f" compute raised {type(e).__name__}: {str(e)[:200]}"}
        bad = E.compare(val, ref, exact=True, dtype=False)
        if bad:
            return None, {"kind": "producer-" + bad[0], "signature": f"producer-{bad[0]}:{case['producer']}", "detail": desc + ": " + bad[1]}
        return "ok", None
    # (a) compute_chunk_sizes: chunks == true per-block sizes; later ops == NumPy
    try:
        true = _true_chunks(y)
        y.compute_chunk_sizes()
    except NotImplementedError:
        return "refused", None
    except Exception as e:  # noqa: BLE001
        return None, {"kind": "ccs-raise", "signature": f"ccs-raise:{case['producer']}:{E.exc_sig(e)}", "detail": desc + f" compute_chunk_sizes raised {type(e).__name__}: {str(e)[:200]}"}
    if tuple(y.chunks) != true:
        return None, {"kind": "ccs-wrong-chunks", "signature": f"ccs-wrong-chunks:{case['producer']}", "detail": desc + f": compute_chunk_sizes set chunks {y.chunks}, the blocks really have sizes {true}"}
    if tuple(y.shape) != np.shape(ref):
        return None, {"kind": "ccs-shape", "signature": f"ccs-shape:{case['producer']}", "detail": desc + f": shape after compute_chunk_sizes {y.shape} != numpy {np.shape(ref)}"}
    zero_block = any(0 in c and sum(c) > 0 for c in y.chunks)
    if out is not None and zero_block and len(x.chunks[0]) > 1:
        out.count("nontrivial")
    tag = "+zeroblock" if zero_block else ""
    fails = []
    for fname in FOLLOW:
        op = OPS.BY_NAME[fname]
        if not op.applies(np.asarray(ref)):
            continue
        try:
            with np.errstate(all="ignore"):
                fref = op.numpy(ref)
        except Exception:
            continue
        if out is not None:
            out.count("follow_on_resolved")
        try:
            z = op.dask(da, y)
            val = z.compute(scheduler="sync")
        except NotImplementedError:
            continue
        except Exception as e:  # noqa: BLE001
            fails.append({"kind": "resolved-raise", "signature": f"resolved-raise:{E.exc_sig(e)}:{fname}{tag}", "detail": desc + f" ; compute_chunk_sizes() -> chunks {y.chunks} ; {fname} raised {type(e).__name__}: {str(e)[:160]}"})
            continue
        bad = E.compare(val, fref, exact=op.exact, dtype=False)
        if bad:
            fails.append({"kind": "resolved-" + bad[0], "signature": f"resolved-{bad[0]}:{fname}{tag}", "detail": desc + f" ; compute_chunk_sizes() -> chunks {y.chunks} ; {fname}: {bad[1]}"})
            continue
        if tuple(z.shape) != np.shape(fref) and not any(isinstance(s, float) and math.isnan(s) for s in z.shape):
            fails.append({"kind": "resolved-meta-shape", "signature": f"resolved-meta-shape:{fname}{tag}", "detail": desc + f" ; {fname}: advertised shape {z.shape} != numpy {np.shape(fref)}"})
    if fails:
        return None, fails
    return "ok", None


def _cases(shard):
    if shard["what"] == "1d":
        n, ch = shard["n"], tuple(shard["chunks"])
        src = E.src((n,), (ch,))
        masks = masks_1d(n)
        for pname, (d, nn) in PRODUCERS_1D.items():
            variants = []
            if "{mask}" in d:
                for m in masks:
                    ms = f"np.array({m.tolist()!r}, dtype=bool)"
                    if pname == "daskmask":
                        for mc in compositions(n)[:: max(1, len(compositions(n)) // 3)]:
                            variants.append((d.format(mask=ms, mc=(mc,)), nn.format(mask=ms)))
                    else:
                        variants.append((d.format(mask=ms), nn.format(mask=ms)))
            else:
                for k in (9, 11, 12, 100):
                    variants.append((d.format(k=k), nn.format(k=k)))
            for de, ne in variants:
                for mode in ("raw", "ccs"):
                    yield {"source": src, "producer": pname, "expr": de, "nexpr": ne, "mode": mode}
    else:
        shape = tuple(shard["shape"])
        src = E.src(shape, tuple(tuple(c) for c in shard["chunks"]))
        m0s = masks_1d(shape[0])
        m1s = masks_1d(shape[1])[::3]
        for pname, (d, nn) in PRODUCERS_2D.items():
            variants = []
            if "{mask0}" in d:
                variants = [(d.format(mask0=f"np.array({m.tolist()!r}, dtype=bool)"), nn.format(mask0=f"np.array({m.tolist()!r}, dtype=bool)")) for m in m0s]
            elif "{mask1}" in d:
                variants = [(d.format(mask1=f"np.array({m.tolist()!r}, dtype=bool)"), nn.format(mask1=f"np.array({m.tolist()!r}, dtype=bool)")) for m in m1s]
            else:
                variants = [(d.format(k=k), nn.format(k=k)) for k in (9, 14, 100)]
            for de, ne in variants:
                for mode in ("raw", "ccs"):
                    yield {"source": src, "producer": pname, "expr": de, "nexpr": ne, "mode": mode}


def plan(tier, seed):
    shards = []
    nmax = 4 if tier == "quick" else 5
    for n in range(1, nmax + 1):
        for ch in compositions(n):
            shards.append({"what": "1d", "n": n, "chunks": list(ch)})
    c2 = list(itertools.product(compositions(3), compositions(4)))
    for c in c2[:: (5 if tier == "quick" else 2)]:
        shards.append({"what": "2d", "shape": [3, 4], "chunks": [list(k) for k in c]})
    return {
        "shards": shards,
        "coverage": {
            "exhaustive": True,
            "bounds": {"n_max_1d": nmax, "masks": "all 2^n for n<=4, patterns above", "follow_on_ops": len(FOLLOW), "producers": len(PRODUCERS_1D) + len(PRODUCERS_2D)},
            "rule": "producers {x[NumPy mask], x[dask mask under several mask chunkings], x[x>k], unique, nonzero, flatnonzero, argwhere; 2-D row/column/full masks, NumPy and dask masks on either axis, compress} over every chunking and every mask: (a) compute_chunk_sizes() sets each chunk to the true size of its block (taken from the executed graph), the shape equals NumPy's, and every follow-on op equals NumPy; (b) without it every op of the follow-on alphabet either raises or returns the NumPy value with the NumPy shape. Non-trivial = multi-block producer with at least one empty block",
        },
        "assumptions": ["true block sizes are read from executing every block key", "any exception is an acceptable refusal while sizes are unknown"],
    }


def run_shard(shard):
    out = ShardOut()
    for case in _cases(shard):
        out.count("evaluations")
        out.count("transitions")
        out.sadd("state_keys", hash(repr((case["source"], case["expr"], case["mode"]))))
        st, f = run_case(case, out)
        if st in ("refused", "invalid"):
            out.count(st)
            continue
        out.count("accepted")
        if f:
            for ff in (f if isinstance(f, list) else [f]):
                ff["case"] = dict(case, want_signature=ff["signature"])
                out.fail(ff)
        elif not out.samples and case["mode"] == "ccs":
            out.sample({"program": case["expr"], "chunks": case["source"]["chunks"]})
    return out.result()


def coverage(agg, plan):
    c = agg.counters
    return {"states": len(agg.sets.get("state_keys", ())), "transitions": c["transitions"], "traces_validated_against_impl": c["accepted"], "evaluations": c["evaluations"], "distinct_nontrivial": c["nontrivial"], "follow_on_unknown": c["follow_on"], "follow_on_raised": c["follow_on_raised"], "follow_on_resolved": c["follow_on_resolved"]}


def vacuity(agg, plan):
    c = agg.counters
    v = []
    if c["unknown_producers"] < 200:
        v.append(f"only {c['unknown_producers']} producers with unknown sizes")
    if c["follow_on_raised"] < 50:
        v.append("no follow-on op ever refused unknown sizes")
    return v


def replay(case):
    st, f = run_case(case)
    if isinstance(f, list):
        want = case.get("want_signature")
        for ff in f:
            if want is None or ff["signature"] == want:
                return ff
        return None
    return f
