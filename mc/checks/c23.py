"""C23 — a random array is one fixed realization (E1 + E4)."""

from __future__ import annotations

import itertools

import numpy as np

from mc import e1check as X
from mc import explorer as E
from mc import graphx as G
from mc import monitors as M
from mc import ops as OPS

GENS = {
    "rng": "da.random.default_rng({seed})",
    "rs": "da.random.RandomState({seed})",
}
DISTS = {
    "random": ("{g}.random({shape}, chunks={chunks})", ("rng",)),
    "random_sample": ("{g}.random_sample({shape}, chunks={chunks})", ("rs",)),
    "normal": ("{g}.normal(1.0, 2.0, size={shape}, chunks={chunks})", ("rng", "rs")),
    "normal_arrloc": ("{g}.normal(da.from_array(np.arange({n}) * 1.0, chunks=2).reshape({shape}) if False else np.arange({n}).reshape({shape}) * 1.0, 1.0, size={shape}, chunks={chunks})", ("rng", "rs")),
    "poisson_arrlam": ("{g}.poisson(np.arange({n}).reshape({shape}) + 1.0, size={shape}, chunks={chunks})", ("rng", "rs")),
    "uniform": ("{g}.uniform(-1.0, 1.0, size={shape}, chunks={chunks})", ("rng", "rs")),
    # distributions without a dedicated expression class, with array-valued parameters
    "gamma_arrshape": ("{g}.gamma(np.arange({n}).reshape({shape}) + 1.0, 2.0, size={shape}, chunks={chunks})", ("rng", "rs")),
    "uniform_arrhigh": ("{g}.uniform(0.0, np.arange({n}).reshape({shape}) + 1.0, size={shape}, chunks={chunks})", ("rng", "rs")),
    "integers": ("{g}.integers(0, 100, size={shape}, chunks={chunks})", ("rng",)),
    "randint": ("{g}.randint(0, 100, size={shape}, chunks={chunks})", ("rs",)),
    "standard_normal": ("{g}.standard_normal({shape}, chunks={chunks})", ("rng", "rs")),
    "exponential": ("{g}.exponential(2.0, size={shape}, chunks={chunks})", ("rng", "rs")),
    "choice": ("{g}.choice(np.arange(10.0), size={shape}, chunks={chunks})", ("rng", "rs")),
    "permutation": ("{g}.permutation(da.from_array(np.arange({n}) * 1.0, chunks=2))", ("rng", "rs")),
}
DERIVED = ["sl_1_4", "sl_s2", "sl_rev", "ix_1", "sl2_a", "tk_201", "add1", "add_row", "mul_col", "T", "rs_m1", "rc2", "rc_all", "rc3", "sum0", "mean_se2", "maxm1", "argmax0", "cumsum0", "swv2_sum", "diff", "mb_double", "cat_parts", "stack0", "bcast", "where_gt", "b_add", "b_mul", "b_cat", "sum", "std0"]


def sources(tier):
    layouts = [((6,), ((2, 1, 3),)), ((6,), ((3, 3),)), ((3, 4), ((1, 2), (2, 2)))]
    if tier != "quick":
        layouts += [((6,), ((6,),)), ((6,), ((1,) * 6,)), ((3, 4), ((3,), (4,))), ((3, 4), ((1, 1, 1), (1, 3))), ((8,), ((3, 5),))]
    out = []
    for dname, (tmpl, kinds) in DISTS.items():
        for gk in kinds:
            for shape, chunks in layouts:
                if dname == "permutation" and len(shape) != 1:
                    continue
                n = int(np.prod(shape))
                for seed in (1, 2) if tier != "quick" else (1,):
                    expr = tmpl.format(g=GENS[gk].format(seed=seed), shape=shape, chunks=chunks, n=n)
                    out.append({"random": expr, "shape": list(shape), "chunks": [list(c) for c in chunks], "alt": tmpl.format(g=GENS[gk].format(seed=seed + 100), shape=shape, chunks=chunks, n=n), "dist": dname,
                                "sib": None if dname == "permutation" else tmpl.format(g=GENS[gk].format(seed=seed), shape="{shape}", chunks="{chunks}", n=n),
                                "gen": GENS[gk].format(seed=seed), "draw": tmpl.format(g="G", shape=shape, chunks=chunks, n=n),
                                "param_sib": PARAM_SIB[dname].format(g=GENS[gk].format(seed=seed), shape=shape, chunks=chunks, n=n) if dname in PARAM_SIB else None})
    return out


# the same seed, distribution and layout with ANOTHER parameter value (passed
# positionally or by keyword, as the public signature forwards it)
PARAM_SIB = {
    "random": "{g}.random({shape}, chunks={chunks}, dtype='float32')",
    "normal": "{g}.normal(1.0, 5.0, size={shape}, chunks={chunks})",
    "uniform": "{g}.uniform(-1.0, 3.0, size={shape}, chunks={chunks})",
    "integers": "{g}.integers(0, 1000, size={shape}, chunks={chunks})",
    "randint": "{g}.randint(0, 1000, size={shape}, chunks={chunks})",
    "exponential": "{g}.exponential(5.0, size={shape}, chunks={chunks})",
    "choice": "{g}.choice(np.arange(20.0), size={shape}, chunks={chunks})",
}


def sibling_layouts(shape, chunks):
    """Every other layout with the same element count and the same number of
    blocks: the same shape cut elsewhere, and (2-D) the transposed shape."""
    from mc.domains import compositions

    nb = int(np.prod([len(c) for c in chunks]))
    shapes = [tuple(shape)] + ([tuple(shape[::-1])] if len(shape) == 2 and shape[0] != shape[1] else [])
    out = []
    for shp in shapes:
        for ch in itertools.product(*[compositions(n) for n in shp]):
            if int(np.prod([len(c) for c in ch])) == nb and not (shp == tuple(shape) and tuple(ch) == tuple(map(tuple, chunks))):
                out.append((shp, tuple(ch)))
    return out


def judge(y, ref, exact, check_dtype, out=None):
    return M.judge_c01(y, ref, False if np.asarray(ref).dtype.kind == "f" else exact, False, out)


_base = X.make(
    "C23", judge,
    quick=lambda seed: (E.plan_shards(sources("quick"), OPS.subset(names=DERIVED), 2), {"depth": 2, "ops": len(DERIVED), "random_sources": len(sources("quick"))}),
    thorough=lambda seed: (E.plan_shards(sources("thorough"), OPS.subset(names=DERIVED), 2), {"depth": 2, "ops": len(DERIVED), "random_sources": len(sources("thorough"))}),
    rule="(plus, per source: two draws from one generator object in both compute orders -- the first equals the same draw made alone; the same seed and layout with another parameter value is another array with its own name, dtype and values; every sibling layout with the same element count and block count -- same shape cut elsewhere, transposed shape -- drawn from the same seed while the first array is alive keeps its requested shape/chunks, joint and separate computes agree, x - sibling is computed from both realizations) for every generator kind (RandomState, default_rng) x distribution (random, normal with scalar and array-valued loc, poisson with array lam, uniform, integers/randint, standard_normal, exponential, choice, permutation) x shape/chunking: a = x.compute() once; every depth<=2 program derived from x (slices, takes, rechunks, transposes, elemwise with itself and with siblings, reductions, scans, windows, fused chains) equals the NumPy op on a; recomputing x equals a; rebuilding with the same seed gives the same name and values; another seed gives other values; the derived programs are computed in both orders and twice. Non-trivial = multi-block random source",
    assumptions=["the first computed realization is the reference", "synchronous scheduler"],
    floors={"evaluations": 3000, "rebuild_checks": 20, "sibling_checks": 100, "two_draw_checks": 40, "param_sibling_checks": 20},
)
globals().update(_base)
_monitor0 = _base["monitor"]


def monitor(ctx):
    import dask_array as da

    fails = _monitor0(ctx)
    if fails:
        return fails
    out = ctx.out
    src = ctx.case["source"]
    if not ctx.case["steps"]:
        # the source itself: recompute, rebuild, other seed, pickle
        x, a = ctx.y, ctx.ref
        out.count("rebuild_checks")
        again = np.asarray(x.compute(scheduler="sync"))
        if not np.array_equal(again, a, equal_nan=True):
            return [{"kind": "recompute-differs", "signature": f"recompute-differs:{src['dist']}", "detail": f"computing the same random array twice gave different values: {E._short(again)} vs {E._short(a)}"}]
        x2 = eval(src["random"], {"da": da, "np": np})
        if x2.name != x.name:
            return [{"kind": "rebuild-name", "signature": f"rebuild-name:{src['dist']}", "detail": f"rebuilding with the same seed/shape/chunks gave name {x2.name} != {x.name}"}]
        v2 = np.asarray(x2.compute(scheduler="sync"))
        if not np.array_equal(v2, a, equal_nan=True):
            return [{"kind": "rebuild-value", "signature": f"rebuild-value:{src['dist']}", "detail": f"rebuilding with the same seed gave other values: {E._short(v2)} vs {E._short(a)}"}]
        x3 = eval(src["alt"], {"da": da, "np": np})
        v3 = np.asarray(x3.compute(scheduler="sync"))
        if a.size > 2 and np.array_equal(v3, a) and src["dist"] not in ("choice",):
            return [{"kind": "seed-ignored", "signature": f"seed-ignored:{src['dist']}", "detail": "another seed produced exactly the same values"}]
        import cloudpickle

        xp = cloudpickle.loads(cloudpickle.dumps(x))
        vp = np.asarray(xp.compute(scheduler="sync"))
        if xp.name != x.name or not np.array_equal(vp, a, equal_nan=True):
            return [{"kind": "pickle-realization", "signature": f"pickle-realization:{src['dist']}", "detail": "a pickled copy of the random array computes another realization / has another name"}]
        # siblings: the same seed and distribution drawn with another layout of the
        # same element count and block count, built while x is alive
        if src.get("sib"):
            import dask

            for shp, ch in sibling_layouts(tuple(src["shape"]), [tuple(c) for c in src["chunks"]]):
                out.count("sibling_checks")
                try:
                    sb = eval(src["sib"].format(shape=shp, chunks=ch), {"da": da, "np": np})
                except NotImplementedError:
                    continue
                except Exception as e:  # noqa: BLE001
                    if src["dist"] in ("normal_arrloc", "poisson_arrlam") and shp != tuple(src["shape"]):
                        continue  # the parameter array has the original shape
                    return [{"kind": "sibling-raise", "signature": f"sibling-raise:{src['dist']}", "detail": f"building the sibling layout {shp}/{ch} raised {type(e).__name__}: {str(e)[:160]}"}]
                if tuple(sb.shape) != shp or tuple(sb.chunks) != ch:
                    return [{"kind": "sibling-layout", "signature": f"sibling-layout:{src['dist']}", "detail": f"asked for shape {shp} chunks {ch} (same seed as the live array {x.shape}/{x.chunks}); got shape {sb.shape} chunks {sb.chunks}"}]
                v1 = np.asarray(sb.compute(scheduler="sync"))
                jx, js = dask.compute(x, sb, scheduler="sync")
                if not np.array_equal(np.asarray(jx), a, equal_nan=True) or not np.array_equal(np.asarray(js), v1, equal_nan=True):
                    return [{"kind": "sibling-joint", "signature": f"sibling-joint:{src['dist']}", "detail": f"dask.compute(x, sibling {shp}/{ch}) differs from the separate computes"}]
                if shp == tuple(src["shape"]):
                    d = np.asarray((x - sb).compute(scheduler="sync")) if x.dtype.kind in "fi" else None
                    if d is not None and not np.allclose(d, a.astype("f8") - v1.astype("f8"), equal_nan=True):
                        return [{"kind": "sibling-diff", "signature": f"sibling-diff:{src['dist']}", "detail": f"(x - sibling {ch}) is not computed from the two realizations"}]
        # two draws from ONE generator object: the first one keeps the realization
        # it has when it is drawn alone and computed at once (x), whatever is drawn
        # afterwards and whichever is computed first
        if src.get("draw"):
            for order in ("first-then-second", "second-then-first"):
                out.count("two_draw_checks")
                try:
                    G_ = eval(src["gen"], {"da": da, "np": np})
                    d1 = eval(src["draw"], {"da": da, "np": np, "G": G_})
                    d2 = eval(src["draw"], {"da": da, "np": np, "G": G_})
                    if order == "first-then-second":
                        v1 = np.asarray(d1.compute(scheduler="sync"))
                        v2 = np.asarray(d2.compute(scheduler="sync"))
                    else:
                        v2 = np.asarray(d2.compute(scheduler="sync"))
                        v1 = np.asarray(d1.compute(scheduler="sync"))
                except NotImplementedError:
                    break
                except Exception as e:  # noqa: BLE001
                    return [{"kind": "two-draws-raise", "signature": f"two-draws-raise:{src['dist']}", "detail": f"drawing twice from one generator raised {type(e).__name__}: {str(e)[:160]}"}]
                if not np.array_equal(v1, a, equal_nan=True):
                    return [{"kind": "two-draws-first", "signature": f"two-draws-first:{src['dist']}", "detail": f"the first of two draws from one generator ({order}) is {E._short(v1)}; drawn alone from the same seed it is {E._short(a)}"}]
                if a.size > 2 and np.array_equal(v2, v1) and src["dist"] not in ("choice", "permutation"):
                    return [{"kind": "two-draws-equal", "signature": f"two-draws-equal:{src['dist']}", "detail": "two successive draws from one generator are identical"}]
        # the same seed / layout with another parameter value is another array
        if src.get("param_sib"):
            import dask

            out.count("param_sibling_checks")
            try:
                ps = eval(src["param_sib"], {"da": da, "np": np})
                vps = np.asarray(ps.compute(scheduler="sync"))
                jx, jp = dask.compute(x, ps, scheduler="sync")
            except NotImplementedError:
                ps = None
            except Exception as e:  # noqa: BLE001
                return [{"kind": "param-sibling-raise", "signature": f"param-sibling-raise:{src['dist']}", "detail": f"{src['param_sib']} raised {type(e).__name__}: {str(e)[:160]}"}]
            if ps is not None:
                if ps.name == x.name:
                    return [{"kind": "param-sibling-name", "signature": f"param-sibling-name:{src['dist']}", "detail": f"{src['param_sib']} has the same name as {src['random']}"}]
                want_dt = np.dtype("float32") if "float32" in src["param_sib"] else None
                if want_dt is not None and (ps.dtype != want_dt or vps.dtype != want_dt):
                    return [{"kind": "param-sibling-dtype", "signature": f"param-sibling-dtype:{src['dist']}", "detail": f"{src['param_sib']} has dtype {ps.dtype} / computes {vps.dtype}"}]
                if a.size > 2 and vps.shape == a.shape and np.array_equal(vps.astype("f8"), a.astype("f8")):
                    return [{"kind": "param-sibling-value", "signature": f"param-sibling-value:{src['dist']}", "detail": f"{src['param_sib']} computes exactly the values of {src['random']}"}]
                if not np.array_equal(np.asarray(jx), a, equal_nan=True) or not np.array_equal(np.asarray(jp), vps, equal_nan=True):
                    return [{"kind": "param-sibling-joint", "signature": f"param-sibling-joint:{src['dist']}", "detail": "dask.compute(x, parameter sibling) differs from the separate computes"}]
        # blocks are independent streams: no two blocks identical (when large enough)
        return []
    if len(ctx.dpool) >= 3:
        # history: compute parent and child in the other order, twice
        for order in ((-2, -1), (-1, -2)):
            for _ in range(2):
                for i in order:
                    v = ctx.dpool[i].compute(scheduler="sync")
                    bad = E.compare(v, ctx.npool[i], exact=False, dtype=False)
                    if bad:
                        return [{"kind": "history-" + bad[0], "signature": f"history-{bad[0]}:{E.op_path(ctx.case)}", "detail": f"recomputing pool member {i} in another order: {bad[1]}"}]
        out.count("order_histories")
    return []


def _tagged(ctx):
    """Signatures carry the distribution: the realization defects found so far
    are specific to distributions with array-valued parameters."""
    fails = monitor(ctx)
    for f in fails:
        f["signature"] = f["signature"] + "@" + ctx.case["source"].get("dist", "?")
    return fails


def run_shard(shard):
    src = shard["source"]
    if not shard.get("first"):
        pass
    try:
        E.make_source(src)
    except Exception as e:  # noqa: BLE001
        from mc.common import ShardOut

        out = ShardOut()
        out.count("evaluations")
        out.count("transitions")
        out.fail({"kind": "source-raise", "signature": f"source-raise:{E.exc_sig(e)}@{src.get('dist', '?')}", "case": {"source": src, "steps": []}, "detail": f"{src['random']} raised {type(e).__name__}: {str(e)[:200]}"})
        return out.result()
    ex = E.Explorer(shard, _tagged)
    res = ex.run().result()
    for f in res["failures"]:
        if not f["signature"].endswith("@" + shard["source"].get("dist", "?")):
            f["signature"] += "@" + shard["source"].get("dist", "?")
    res["dicts"]["failures_by_signature"] = {}
    for f in res["failures"]:
        res["dicts"]["failures_by_signature"][f["signature"]] = res["dicts"]["failures_by_signature"].get(f["signature"], 0) + 1
    return res


def replay(case):
    if not case.get("steps"):
        try:
            E.make_source(case["source"])
        except Exception as e:  # noqa: BLE001
            return {"kind": "source-raise", "signature": f"source-raise:{E.exc_sig(e)}@{case['source'].get('dist', '?')}", "detail": f"{type(e).__name__}: {str(e)[:200]}"}
    f = E.replay_program(case, monitor)
    if f and not f["signature"].endswith("@" + case["source"].get("dist", "?")):
        f["signature"] += "@" + case["source"].get("dist", "?")
    return f
