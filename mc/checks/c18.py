"""C18 — reductions are independent of chunking and tree shape (E1, depth <= 2)."""

from __future__ import annotations

import itertools

import numpy as np

from mc import casecheck as CC
from mc import explorer as E
from mc.domains import chz, compositions

RED = [
    # (name, dask template, numpy template, exact, needs nonempty, dtype kinds)
    ("sum", "da.sum(x{kw})", "np.sum(a{nkw})", False, False, "fibc"),
    ("prod", "da.prod(x{kw})", "np.prod(a{nkw})", False, False, "fi"),
    ("min", "da.min(x{kw})", "np.min(a{nkw})", True, True, "fib"),
    ("max", "da.max(x{kw})", "np.max(a{nkw})", True, True, "fib"),
    ("any", "da.any(x > 12{kw})", "np.any(a > 12{nkw})", True, False, "fi"),
    ("all", "da.all(x > 12{kw})", "np.all(a > 12{nkw})", True, False, "fi"),
    ("mean", "da.mean(x{kw})", "np.mean(a{nkw})", False, True, "fic"),
    ("var", "da.var(x{kw})", "np.var(a{nkw})", False, True, "fic"),
    ("std", "da.std(x{kw})", "np.std(a{nkw})", False, True, "fi"),
    ("var_ddof1", "da.var(x, ddof=1{kw})", "np.var(a, ddof=1{nkw})", False, True, "f"),
    ("moment3", "da.moment(x, 3{kw})", "uf.np_moment(a, 3{nkw})", False, True, "f"),
    ("nansum", "da.nansum(x{kw})", "np.nansum(a{nkw})", False, False, "n"),
    ("nanprod", "da.nanprod(x{kw})", "np.nanprod(a{nkw})", False, False, "n"),
    ("nanmin", "da.nanmin(x{kw})", "np.nanmin(a{nkw})", True, True, "n"),
    ("nanmax", "da.nanmax(x{kw})", "np.nanmax(a{nkw})", True, True, "n"),
    ("nanmean", "da.nanmean(x{kw})", "np.nanmean(a{nkw})", False, True, "n"),
    ("nanvar", "da.nanvar(x{kw})", "np.nanvar(a{nkw})", False, True, "n"),
    ("nanstd", "da.nanstd(x{kw})", "np.nanstd(a{nkw})", False, True, "n"),
    ("count_nonzero", "da.count_nonzero(x > 12{kw})", "np.count_nonzero(a > 12{nkw})", True, False, "f"),
    ("ptp", "da.ptp(x{kw})", "np.ptp(a{nkw})", True, True, "f"),
]
ARG = [("argmin", "da.argmin(x{kw})", "np.argmin(a{nkw})"), ("argmax", "da.argmax(x{kw})", "np.argmax(a{nkw})"), ("nanargmin", "da.nanargmin(x{kw})", "np.nanargmin(a{nkw})"), ("nanargmax", "da.nanargmax(x{kw})", "np.nanargmax(a{nkw})")]


def _axes(nd):
    out = [None] + list(range(nd)) + [-1]
    if nd >= 2:
        out += [(0, 1), (0, -1), tuple(range(nd))]
    if nd >= 3:
        out += [(0, 2), (1, 2)]
    return list(dict.fromkeys(out))


def _split(nd):
    return [None, 2, 3, 16] + ([{0: 2}] if nd >= 1 else []) + ([{0: 2, 1: 3}] if nd >= 2 else [])


def _gen(shard):
    shape = tuple(shard["shape"])
    zb = any(0 in c and s > 0 for c, s in zip(shard["chunks"], shape))
    zs = int(np.prod(shape)) == 0
    suffix = ("+zeroblock" if zb else "") + ("+zerosize" if zs else "")
    for case in _gen0(shard):
        case["label"] += suffix
        yield case


def _gen0(shard):
    shape = tuple(shard["shape"])
    chunks = tuple(tuple(c) for c in shard["chunks"])
    nd = len(shape)
    size = int(np.prod(shape))
    variants = [("f8", None), ("i8", None), ("bool", None)]
    if shard.get("complex"):
        variants.append(("c16", None))
    nan_sets = shard.get("nans", [])
    for dt, _ in variants:
        src = E.src(shape, chunks, dt)
        kind = {"f8": "f", "i8": "i", "bool": "b", "c16": "c"}[dt]
        for name, dt_t, np_t, exact, nonempty, kinds in RED:
            if kind not in kinds:
                continue
            if ">" in dt_t and kind in "bc":
                continue
            for ax in _axes(nd):
                axes = range(nd) if ax is None else ([ax] if isinstance(ax, int) else ax)
                red_size = int(np.prod([shape[a] for a in axes])) if nd else 1
                if nonempty and red_size == 0:
                    continue
                if name in ("var_ddof1",) and red_size < 2:
                    continue
                for kd in (False, True):
                    for se in _split(nd) if dt == "f8" else [None, 2]:
                        if isinstance(se, dict) and ax is not None and not all((a % nd) in se for a in axes):
                            continue
                        kw = f", axis={ax!r}, keepdims={kd}" + (f", split_every={se!r}" if se is not None else "")
                        nkw = f", axis={ax!r}, keepdims={kd}"
                        if name in ("ptp", "count_nonzero"):
                            # dask's signatures have no keepdims / split_every here
                            if isinstance(ax, tuple) and name == "ptp" or se is not None or kd:
                                continue
                            kw = nkw = f", axis={ax!r}"
                        yield {"source": src, "expr": dt_t.format(kw=kw), "nexpr": np_t.format(nkw=nkw), "label": name, "exact": exact and kind != "c"}
        # arg reductions (axis None or single)
        if dt in ("f8", "i8") and size > 0:
            for name, dt_t, np_t in ARG[:2]:
                for ax in [None] + list(range(nd)) + [-1]:
                    for kd in (False, True):
                        for se in (None, 2, 3):
                            kw = f", axis={ax!r}, keepdims={kd}" + (f", split_every={se!r}" if se is not None else "")
                            yield {"source": src, "expr": dt_t.format(kw=kw), "nexpr": np_t.format(nkw=f", axis={ax!r}, keepdims={kd}"), "label": name}
            # ties: first occurrence
            for name, dt_t, np_t in ARG[:2]:
                for ax in [None] + list(range(nd)):
                    yield {"source": src, "expr": dt_t.format(kw=f", axis={ax!r}").replace("(x", "(x // 3"), "nexpr": np_t.format(nkw=f", axis={ax!r}").replace("(a", "(a // 3"), "label": name + "-ties"}
        # slices pushed through the reduction
        if dt == "f8" and size > 0 and nd >= 1:
            for ax in range(nd):
                for sl in ["[1:]", "[:1]", "[::2]", "[::-1]", "[-1]", "[0]", "[1:1]"]:
                    if nd == 1:
                        continue
                    for se in (None, 2):
                        sk = f", split_every={se}" if se else ""
                        yield {"source": src, "expr": f"da.sum(x, axis={ax}{sk}){sl}", "nexpr": f"np.sum(a, axis={ax}){sl}", "label": "slice-through-reduction", "exact": False, "np_raises_must_raise": False}
                        yield {"source": src, "expr": f"da.mean(x, axis={ax}, keepdims=True{sk}){sl}", "nexpr": f"np.mean(a, axis={ax}, keepdims=True){sl}", "label": "slice-through-reduction", "exact": False}
                        yield {"source": src, "expr": f"da.argmax(x, axis={ax}{sk}){sl}", "nexpr": f"np.argmax(a, axis={ax}){sl}", "label": "slice-through-reduction"}
            # weighted average
            for ax in [None] + list(range(nd)):
                yield {"source": src, "expr": f"da.average(x, axis={ax!r}, weights=x)", "nexpr": f"np.average(a, axis={ax!r}, weights=a)", "label": "average", "exact": False}
            # topk
            for ax in range(nd):
                for k in (1, 2, -1, -2):
                    if abs(k) <= shape[ax]:
                        yield {"source": src, "expr": f"da.topk(x, {k}, axis={ax}, split_every=2)", "nexpr": f"uf.np_topk(a, {k}, axis={ax})", "label": "topk"}
                        yield {"source": src, "expr": f"da.argtopk(x, {k}, axis={ax})", "nexpr": f"uf.np_argtopk(a, {k}, axis={ax})", "label": "argtopk"}
    # NaN placements for the nan-variants
    for nans in nan_sets:
        src = E.src(shape, chunks, "f8", nan=list(nans))
        for name, dt_t, np_t, exact, nonempty, kinds in RED:
            if "n" not in kinds:
                continue
            for ax in _axes(nd)[:5]:
                for se in (None, 2):
                    kw = f", axis={ax!r}" + (f", split_every={se!r}" if se is not None else "")
                    yield {"source": src, "expr": dt_t.format(kw=kw), "nexpr": np_t.format(nkw=f", axis={ax!r}"), "label": name + "+nan", "exact": exact, "np_raises_must_raise": False}
        if size > 0:
            for name, dt_t, np_t in ARG[2:]:
                for ax in [None] + list(range(nd)):
                    for se in (None, 2):
                        kw = f", axis={ax!r}" + (f", split_every={se!r}" if se is not None else "")
                        # NumPy raises on an all-NaN slice; dask must raise too
                        yield {"source": src, "expr": dt_t.format(kw=kw), "nexpr": np_t.format(nkw=f", axis={ax!r}"), "label": name + "+nan", "np_raises_must_raise": True}


def plan_shards(tier):
    shards = []

    def add(shape, chs, nans=(), complex_=False):
        for c in chs:
            shards.append({"shape": list(shape), "chunks": [list(k) for k in c], "nans": [list(n) for n in nans], "complex": complex_})

    c6 = [(c,) for c in compositions(6)]
    c34 = list(itertools.product(compositions(3), compositions(4)))
    if tier == "quick":
        add((6,), c6[::3], nans=[(0,), (2, 3), (0, 1, 2, 3, 4, 5)])
        add((3, 4), c34[::5], nans=[(0,), (4, 5, 6, 7), (1, 5, 9), (0, 1, 4), (0, 4, 5), (2, 3, 6, 11), (0, 1, 2, 4, 8)])
        add((2, 3, 2), [((1, 1), (2, 1), (2,))])
        add((0, 3), [((0,), (1, 2))])
        add((4,), [(c,) for c in chz(4, 1) if 0 in c][::4])
    else:
        masks4 = [tuple(i for i in range(4) if m >> i & 1) for m in range(1, 16)]
        add((6,), c6, nans=[(0,), (5,), (2, 3), (0, 2, 4), (0, 1, 2, 3, 4, 5)], complex_=True)
        add((4,), [(c,) for c in compositions(4)], nans=masks4)
        add((3, 4), c34, nans=[(0,), (4, 5, 6, 7), (1, 5, 9), (0, 1, 2, 3, 4, 5, 6, 7, 8, 9, 10, 11)] + [tuple(c) for k in (2, 3) for c in itertools.combinations(range(12), k)][::3])
        add((2, 3, 2), list(itertools.product(compositions(2), compositions(3), compositions(2)))[::2])
        add((0, 3), [((0,), c) for c in compositions(3)])
        add((1, 4), [((1,), c) for c in compositions(4)])
        add((4,), [(c,) for c in chz(4, 1) if 0 in c])
    return shards


_m = CC.make(
    "C18", _gen, plan_shards,
    rule="every reduction of the family x every chunking of the listed shapes x every axis subset (incl. negative, tuple, None) x keepdims x split_every (None, 2, 3, 16, per-axis dict) x dtypes (f8, i8, bool, c16) x NaN placement sets for the nan-variants, arg-reductions incl. ties (first occurrence) and all-NaN slices (must raise like NumPy), slices pushed through reductions, weighted average, topk/argtopk; reference = NumPy. Non-trivial = multi-block source and non-empty result",
    assumptions=["NumPy is the reference; inexact reductions compared with rtol 1e-9", "topk reference = sort-based helper"],
    floors={"accepted": 3000},
    layout=True,
)
globals().update(_m)
