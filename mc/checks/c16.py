"""C16 — chunk normalization produces valid layouts within the byte limit (E2)."""

from __future__ import annotations

import itertools
import math

import dask
import numpy as np

from mc.common import ShardOut
from mc.domains import compositions

PROPERTY = "C16"

DTYPES = ["i1", "f4", "f8"]


def _shapes(tier):
    dims = [0, 1, 2, 3, 5, 8] if tier == "quick" else [0, 1, 2, 3, 4, 5, 6, 7, 8]
    S = [(a,) for a in dims]
    d2 = [0, 1, 3, 8] if tier == "quick" else [0, 1, 2, 3, 5, 8]
    S += [(a, b) for a in d2 for b in d2]
    if tier != "quick":
        S += [(a, b, c) for a in (1, 3, 8) for b in (0, 2, 8) for c in (1, 5)]
    else:
        S += [(2, 3, 5), (8, 8, 2)]
    return S


def _axis_specs(n):
    """Specs for one axis of length n."""
    s = [1, 2, 3, n, n + 1, -1, None, "auto"] if n else [1, -1, None, "auto"]
    s += ["16B", "64B"]
    for c in compositions(n)[:: max(1, len(compositions(n)) // 6)]:
        s.append(tuple(c))
    # explicit tuples that do NOT describe the axis: must be refused (or, if
    # accepted, the result is judged like any other and fails the sum rule)
    s.append((n + 1,))
    if n >= 2:
        s.append((1,) * (n - 1))
    return s


def _limits(tier):
    return [1, 8, 24, 64, 1024] if tier != "quick" else [1, 24, 1024]


def plan(tier, seed):
    shards = [{"shape": list(s), "tier": tier} for s in _shapes(tier)]
    return {
        "shards": shards,
        "coverage": {
            "exhaustive": True,
            "bounds": {"shapes": len(shards), "dtypes": DTYPES, "limits_bytes": _limits(tier), "tolerance": [1.0, 1.25]},
            "rule": "every shape x every per-axis spec combination (ints, -1, None, 'auto', byte strings, explicit tuples, dict forms, whole-spec int/'auto'/bytes) x dtype x limit x previous_chunks (None, every 6th chunking of the shape, storage-style uniform) x chunk-size-tolerance: result is one non-empty tuple per axis, sizes >= 0 summing to the axis, no manufactured zero-size chunk on a non-zero axis, auto axes within limit*tolerance unless the fixed axes alone reach it, uniform c gives c,...,c,rest. Specs include explicit tuples and previous_chunks that do NOT describe the shape (refusal expected; an accepted one is judged by the same rules). A raise is a refusal counted by type. Non-trivial = accepted spec with an auto axis or producing > 1 block",
        },
        "assumptions": ["array.chunk-size-tolerance (documented slack) multiplies the limit for auto axes", "raises are refusals (the property speaks about accepted specs)"],
    }


def _check(spec, shape, limit, dtype, prev, tol, out):
    from dask_array._core_utils import normalize_chunks

    out.count("evaluations")
    out.count("transitions")
    case = {"spec": repr(spec), "shape": list(shape), "limit": limit, "dtype": dtype, "prev": repr(prev), "tol": tol}
    with dask.config.set({"array.chunk-size-tolerance": tol}):
        try:
            res = normalize_chunks(spec, shape=shape, limit=limit, dtype=np.dtype(dtype), previous_chunks=prev)
        except Exception as e:
            out.count("refused")
            out.dcount("refused_by_type", type(e).__name__)
            return
    out.count("accepted")
    desc = f"normalize_chunks({spec!r}, shape={shape}, limit={limit}, dtype={dtype}, previous_chunks={prev}) [tolerance {tol}] = {res}"

    def bad(kind, msg):
        out.fail({"kind": kind, "signature": kind, "case": case, "detail": desc + " : " + msg})

    if not isinstance(res, tuple) or len(res) != len(shape):
        return bad("malformed", "not one tuple per axis")
    for ax, (c, n) in enumerate(zip(res, shape)):
        if not isinstance(c, tuple) or len(c) == 0:
            return bad("malformed", f"axis {ax} is empty or not a tuple")
        if any((not isinstance(v, (int, np.integer))) or v < 0 for v in c):
            return bad("negative-or-non-int", f"axis {ax} has a negative / non-int size")
        if sum(c) != n:
            return bad("sum-mismatch", f"axis {ax} sums to {sum(c)} != {n}")
    # zero-size chunks only where the input carried them or the axis is empty
    specs = _per_axis(spec, len(shape))
    for ax, (c, n) in enumerate(zip(res, shape)):
        sp = specs[ax] if specs else None
        if sp == ("keep",):
            continue
        explicit = isinstance(sp, tuple)
        if n > 0 and not explicit and any(v == 0 for v in c):
            return bad("manufactured-zero-chunk", f"axis {ax} got a zero-size chunk on a non-zero axis")
        if explicit and tuple(c) != tuple(sp):
            return bad("explicit-changed", f"explicit chunks {sp} on axis {ax} were changed")
        if isinstance(sp, (int, np.integer)) and sp > 0 and n > 0:
            k, r = divmod(n, sp)
            want = (sp,) * k + ((r,) if r else ())
            if tuple(c) != want:
                return bad("uniform-wrong", f"uniform size {sp} on axis {ax} should give {want}")
        if (sp == -1 or sp is None) and specs is not None and tuple(c) != (n,):
            return bad("full-axis-wrong", f"-1/None on axis {ax} should give ({n},)")
    # auto axes: byte limit
    auto_axes = [ax for ax in range(len(shape)) if specs is not None and (specs[ax] == "auto" or (isinstance(specs[ax], str) and specs[ax] != "auto"))]
    if auto_axes and all(shape):
        itemsize = np.dtype(dtype).itemsize
        fixed = 1
        for ax in range(len(shape)):
            if ax not in auto_axes:
                fixed *= max(res[ax])
        per_axis_limits = [specs[ax] for ax in auto_axes if isinstance(specs[ax], str) and specs[ax] != "auto"]
        eff = limit
        if per_axis_limits:
            from dask.utils import parse_bytes

            eff = max(parse_bytes(s) for s in per_axis_limits) if not any(specs[ax] == "auto" for ax in auto_axes) else max([limit] + [parse_bytes(s) for s in per_axis_limits])
        block = fixed
        for ax in auto_axes:
            block *= max(res[ax])
        if fixed * itemsize < eff and block * itemsize > eff * tol + 1e-9:
            # every auto axis already at size 1 cannot shrink further
            if not all(max(res[ax]) == 1 for ax in auto_axes):
                return bad("auto-over-limit", f"largest block {block}*{itemsize}B = {block * itemsize}B exceeds limit {eff}B x tolerance {tol}")
        out.count("auto_cases")
        out.count("nontrivial")
    elif any(len(c) > 1 for c in res):
        out.count("nontrivial")
    if len(out.samples) < 2 and auto_axes:
        out.sample(desc)


def _per_axis(spec, ndim):
    """Expand the whole spec into one entry per axis the way the docs define
    it (int/str/None broadcast; dict with missing -> None handled by caller)."""
    if isinstance(spec, dict):
        return [spec.get(ax, spec.get(ax - ndim, None)) if (ax in spec or ax - ndim in spec) else ("keep",) for ax in range(ndim)]
    if isinstance(spec, (int, np.integer, str)) or spec is None:
        return [spec] * ndim
    if isinstance(spec, tuple) and len(spec) == ndim:
        return list(spec)
    return None


def run_shard(shard):
    out = ShardOut()
    shape = tuple(shard["shape"])
    tier = shard["tier"]
    nd = len(shape)
    axis_specs = [_axis_specs(n) for n in shape]
    if nd == 3:
        axis_specs = [[s for s in a if not isinstance(s, tuple) or len(s) <= 2][:8] for a in axis_specs]
    specs = [tuple(c) for c in itertools.product(*axis_specs)]
    specs += [1, 2, 3, -1, None, "auto", "16B", "64B", "1KiB"]
    if nd >= 1:
        specs += [{0: 2}, {0: "auto"}, {nd - 1: -1}, {0: 1, nd - 1: "auto"}]
    chs = list(itertools.product(*[compositions(n) for n in shape]))
    prevs = [None] + chs[:: max(1, len(chs) // 6)][:6]
    prevs.append(tuple((2,) * (n // 2) + ((n % 2,) if n % 2 else ()) if n else (0,) for n in shape))
    if all(n >= 2 for n in shape):
        # previous chunks that describe another (shorter) array
        prevs.append(tuple((1,) * (n - 1) for n in shape))
    for spec in specs:
        has_auto = "auto" in repr(spec) or "B'" in repr(spec)
        for dtype in DTYPES if has_auto else ["f8"]:
            for limit in _limits(tier) if has_auto else [64]:
                for prev in prevs if has_auto else [None]:
                    for tol in (1.0, 1.25) if has_auto else (1.25,):
                        _check(spec, shape, limit, dtype, prev, tol, out)
        out.sadd("state_keys", hash((shape, repr(spec))))
    return out.result()


def coverage(agg, plan):
    c = agg.counters
    return {"states": len(agg.sets.get("state_keys", ())), "transitions": c["transitions"], "traces_validated_against_impl": c["accepted"], "evaluations": c["evaluations"], "distinct_nontrivial": c["nontrivial"], "refused": c["refused"]}


def vacuity(agg, plan):
    c = agg.counters
    v = []
    if c["auto_cases"] < 1000:
        v.append(f"only {c['auto_cases']} auto cases")
    if c["accepted"] < 5000:
        v.append("too few accepted specs")
    return v


def replay(case):
    out = ShardOut()
    env = {"None": None}
    _check(eval(case["spec"], env), tuple(case["shape"]), case["limit"], case["dtype"], eval(case["prev"], env), case["tol"], out)
    return out.failures[0] if out.failures else None
