"""C15 — rechunk plans are valid and respect the block-size budget (E2)."""

from __future__ import annotations

import itertools
import math

import dask
import numpy as np

from mc.common import ShardOut
from mc.domains import compositions

PROPERTY = "C15"

ITEMSIZES = [1, 8]
THRESHOLDS = [1, 2, 4, 32]
LIMITS = [1, 16, 128, 10**9]
DEGREES = [2, 3, 100]
QUICK_LIMITS = [1, 16, 32, 10**9]


def _shapes(tier):
    if tier == "quick":
        return [(n,) for n in range(0, 6)] + [(3, 4), (2, 2, 3), (0, 3), (4, 1)]
    return [(n,) for n in range(0, 8)] + [(4, 4), (3, 5), (2, 2, 3), (0, 3), (4, 1), (1, 6)]


def _chunkings(shape):
    return list(itertools.product(*[compositions(n) for n in shape]))


def plan(tier, seed):
    shards = []
    for shp in _shapes(tier):
        chs = _chunkings(shp)
        nparts = max(1, len(chs) // 8)
        for part in range(nparts):
            shards.append({"shape": list(shp), "part": part, "parts": nparts, "tier": tier})
    for n in (UNIFORM_N if tier != "quick" else UNIFORM_N[:2]):
        shards.append({"what": "uniform", "n": n, "tier": tier})
    for n in range(1, (9 if tier != "quick" else 8)):
        shards.append({"what": "helpers", "n": n, "tier": tier})
    shards.append({"what": "helpers-uniform", "tier": tier})
    return {
        "shards": shards,
        "coverage": {
            "exhaustive": True,
            "bounds": {"uniform_axis_lengths": list(UNIFORM_N), "helper_axis_lengths": 8, "shapes": [list(s) for s in _shapes(tier)], "itemsize": ITEMSIZES, "threshold": THRESHOLDS if tier != "quick" else [1, 4], "block_size_limit_bytes": LIMITS if tier != "quick" else QUICK_LIMITS, "degree_limit": DEGREES},
            "rule": "(helpers: merge_to_number(c, k) for every chunking c of n<=8 and every uniform (w,)*m, every k: an exact merge of whole blocks into <= k blocks summing to the length; divide_to_width(c, w): an exact refinement with blocks <= w; uniform family: every pair of uniform chunkings of axes of length 12/18/24/30, alone and crossed with a second axis, under degree limits 2/3/5) every (old, new) pair of chunkings of each shape x itemsize x threshold x block-size limit x degree-limit: plan_rechunk output is a finite non-empty list of chunkings of the shape ending in new; every intermediate step's largest block <= max(limit/itemsize, largest old, largest new); old_to_new of every consecutive pair covers each new block exactly once, in order, with contiguous in-bounds pieces (brute force on index ranges); the _compute_rechunk layer of every step executed on labelled data reproduces the array. Non-trivial = plan with >= 2 steps or a pair that both merges and splits",
        },
        "assumptions": ["config keys are set through dask.config for each call", "labelled data = arange over the shape"],
    }


def _largest(chunks):
    r = 1
    for c in chunks:
        r *= max(c) if c else 0
    return r


def _check_crosswalk(old, new, out, ctx):
    from dask_array._rechunk import old_to_new

    try:
        cw = old_to_new(old, new)
    except Exception as e:
        return f"old_to_new({old}, {new}) raised {type(e).__name__}: {e}"
    if len(cw) != len(old):
        return f"old_to_new returned {len(cw)} axes for rank {len(old)}"
    for ax, (oc, nc, axw) in enumerate(zip(old, new, cw)):
        ooffs = np.concatenate([[0], np.cumsum(oc)]).astype(int)
        noffs = np.concatenate([[0], np.cumsum(nc)]).astype(int)
        if len(axw) != len(nc):
            return f"axis {ax}: crosswalk lists {len(axw)} new blocks, new chunking has {len(nc)}"
        for j, pieces in enumerate(axw):
            pos = []
            for oi, sl in pieces:
                if not (0 <= oi < len(oc)):
                    return f"axis {ax} new block {j}: old block index {oi} out of range"
                if sl.step not in (None, 1) or sl.start is None or sl.stop is None or not (0 <= sl.start <= sl.stop <= oc[oi]):
                    return f"axis {ax} new block {j}: piece {sl} not a contiguous in-bounds slice of old block {oi} (size {oc[oi]})"
                pos.extend(range(ooffs[oi] + sl.start, ooffs[oi] + sl.stop))
            want = list(range(noffs[j], noffs[j + 1]))
            if pos != want:
                return f"axis {ax} new block {j} covers positions {pos}, should cover {want} (old={oc} new={nc})"
    return None


def _exec_step(old, new, label):
    """Execute the real _compute_rechunk layer on labelled blocks."""
    from dask.local import get_sync

    from dask_array._rechunk import _compute_rechunk

    name = "rechunk-merge-x"
    merge_name, chunks, layer = _compute_rechunk("src", old, new, 0, name)
    dsk = dict(layer)
    offs = [np.concatenate([[0], np.cumsum(c)]).astype(int) for c in old]
    for idx in itertools.product(*[range(len(c)) for c in old]):
        sl = tuple(slice(offs[a][i], offs[a][i + 1]) for a, i in enumerate(idx))
        dsk[("src",) + idx] = label[sl]
    noffs = [np.concatenate([[0], np.cumsum(c)]).astype(int) for c in new]
    for idx in itertools.product(*[range(len(c)) for c in new]):
        got = get_sync(dsk, (merge_name,) + idx)
        sl = tuple(slice(noffs[a][i], noffs[a][i + 1]) for a, i in enumerate(idx))
        want = label[sl]
        if np.shape(got) != want.shape or not np.array_equal(got, want):
            return f"_compute_rechunk({old} -> {new}) block {idx} = {np.asarray(got).tolist()}, expected {want.tolist()}"
    return None


def _check_plan(old, new, itemsize, threshold, limit, degree, out, do_exec):
    from dask_array._rechunk import plan_rechunk

    shape = tuple(sum(c) for c in old)
    case = {"old": [list(c) for c in old], "new": [list(c) for c in new], "itemsize": itemsize, "threshold": threshold, "limit": limit, "degree": degree}
    out.count("evaluations")
    out.count("transitions")
    with dask.config.set({"array.rechunk.degree-limit": degree}):
        try:
            plan = plan_rechunk(old, new, itemsize, threshold=threshold, block_size_limit=limit)
        except Exception as e:
            return out.fail({"kind": "raise", "signature": f"raise:plan_rechunk:{type(e).__name__}", "case": case, "detail": f"plan_rechunk({old}, {new}, itemsize={itemsize}, threshold={threshold}, block_size_limit={limit}) [degree-limit={degree}] raised {type(e).__name__}: {e}"})
    if not isinstance(plan, list) or not plan or len(plan) > 64:
        return out.fail({"kind": "malformed", "signature": "malformed-plan", "case": case, "detail": f"plan is not a finite non-empty list: {str(plan)[:200]}"})
    if tuple(map(tuple, plan[-1])) != tuple(map(tuple, new)):
        return out.fail({"kind": "last-step", "signature": "plan-does-not-end-in-new", "case": case, "detail": f"plan {plan} does not end in {new}"})
    budget = max(limit / itemsize, _largest(old), _largest(new))
    prev = old
    for k, step in enumerate(plan):
        ok = len(step) == len(shape) and all(len(c) > 0 and sum(c) == s and all(isinstance(v, (int, np.integer)) and (v > 0 or s == 0) for v in c) for c, s in zip(step, shape))
        if not ok:
            return out.fail({"kind": "invalid-step", "signature": "invalid-step", "case": case, "detail": f"step {k} = {step} is not a positive chunking of shape {shape}; plan {plan}"})
        if k < len(plan) - 1 and _largest(step) > budget:
            with dask.config.set({"array.rechunk.degree-limit": 10**9}):
                base = plan_rechunk(old, new, itemsize, threshold=threshold, block_size_limit=limit)
            via = "planner" if step in base else "bound_degree"
            out.fail({"kind": "budget", "signature": f"budget-exceeded:{via}", "case": case, "detail": f"old={old} new={new} itemsize={itemsize} limit={limit}B degree-limit={degree}: intermediate step {step} has a block of {_largest(step)} elements > budget {budget:g} (= max(limit/itemsize, largest old {_largest(old)}, largest new {_largest(new)})); plan {plan}"})
            return
        err = _check_crosswalk(prev, step, out, case)
        if err:
            return out.fail({"kind": "crosswalk", "signature": "crosswalk", "case": case, "detail": err})
        prev = step
    if do_exec and all(shape):
        label = np.arange(int(np.prod(shape))).reshape(shape)
        prev = old
        for step in plan:
            out.count("layers_executed")
            try:
                err = _exec_step(tuple(map(tuple, prev)), tuple(map(tuple, step)), label)
            except Exception as e:
                err = f"executing _compute_rechunk({prev} -> {step}) raised {type(e).__name__}: {e}"
            if err:
                return out.fail({"kind": "exec", "signature": "rechunk-layer-wrong", "case": case, "detail": err})
            prev = step
    out.count("accepted")
    if len(plan) >= 2:
        out.count("multi_step_plans")
        out.count("nontrivial")
    elif any(len(o) != len(n) and o != n for o, n in zip(old, new)):
        merges = any(len(n) < len(o) for o, n in zip(old, new))
        splits = any(len(n) > len(o) for o, n in zip(old, new))
        if merges and splits:
            out.count("nontrivial")
    if len(plan) >= 2 and len(out.samples) < 1:
        out.sample({"old": old, "new": new, "itemsize": itemsize, "threshold": threshold, "limit": limit, "degree": degree, "plan": plan})


UNIFORM_N = (12, 18, 24, 30)


def _uniforms(n):
    return [((n // k,) * k) for k in range(1, n + 1) if n % k == 0]


def _bounds(c):
    return set(np.cumsum(c).tolist())


def _check_helper(fn_name, desired, arg, out):
    """merge_to_number / divide_to_width are exact coarsenings / refinements."""
    from dask_array import _rechunk as R

    out.count("evaluations")
    out.count("transitions")
    out.count("helper_calls")
    case = {"what": "helper", "fn": fn_name, "desired": list(desired), "arg": arg}
    try:
        res = getattr(R, fn_name)(tuple(desired), arg)
    except Exception as e:  # noqa: BLE001
        return out.fail({"kind": "helper-raise", "signature": f"helper-raise:{fn_name}:{type(e).__name__}", "case": case, "detail": f"{fn_name}({desired}, {arg}) raised {type(e).__name__}: {e}"})
    res = tuple(res)
    total = sum(desired)
    msg = None
    if sum(res) != total or any((not isinstance(v, (int, np.integer))) or v <= 0 for v in res):
        msg = f"is not a positive chunking of length {total}"
    elif fn_name == "merge_to_number":
        if len(res) > max(arg, 1) and len(desired) > arg:
            msg = f"has {len(res)} blocks, more than {arg}"
        elif len(desired) <= arg and res != tuple(desired):
            msg = "changed a chunking that already has few enough blocks"
        elif not _bounds(res) <= _bounds(desired):
            msg = "is not a merge of whole input blocks"
    else:
        if max(res) > arg:
            msg = f"has a block wider than {arg}"
        elif not _bounds(desired) <= _bounds(res):
            msg = "does not keep every input block boundary"
    if msg:
        return out.fail({"kind": "helper", "signature": f"helper:{fn_name}:{'uniform' if len(set(desired)) == 1 else 'ragged'}", "case": case, "detail": f"{fn_name}({tuple(desired)}, {arg}) = {res} {msg}"})
    out.count("accepted")


def _run_helpers(shard, out):
    if shard["what"] == "helpers":
        chs = [c for c in compositions(shard["n"])]
    else:
        chs = [(w,) * m for w in range(1, 6) for m in range(1, 16 if shard["tier"] != "quick" else 13)]
    for c in chs:
        out.sadd("state_keys", hash(("h", c)))
        for k in range(1, len(c) + 2):
            _check_helper("merge_to_number", c, k, out)
        for w in range(1, max(c) + 2):
            _check_helper("divide_to_width", c, w, out)


def _run_uniform(shard, out):
    """Uniform chunkings of longer axes: the only way to reach the degree
    bound's subdivision (merge_to_number fast path) with block width > 1."""
    n = shard["n"]
    us = _uniforms(n)
    second = [(4,), (2, 2), (1, 1, 1, 1)]
    pairs = [((o,), (nw,)) for o in us for nw in us] + [((o, s0), (nw, s1)) for o in us for nw in us for s0 in second for s1 in second if (len(o) > 1 or len(nw) > 1)][:: (1 if shard["tier"] != "quick" else 3)]
    for old, new in pairs:
        out.sadd("state_keys", hash((old, new)))
        for itemsize in (1, 8):
            for t in (1, 4):
                for l in (16, 128, 10**9):
                    for d in (2, 3, 5):
                        _check_plan(old, new, itemsize, t, l, d, out, do_exec=(itemsize == 1 and t == 1 and l == 16 and len(old) == 1))


def run_shard(shard):
    out = ShardOut()
    if shard.get("what") in ("helpers", "helpers-uniform"):
        _run_helpers(shard, out)
        return out.result()
    if shard.get("what") == "uniform":
        _run_uniform(shard, out)
        return out.result()
    shp = tuple(shard["shape"])
    tier = shard["tier"]
    chs = _chunkings(shp)
    thr = THRESHOLDS if tier != "quick" else [1, 4]
    lim = LIMITS if tier != "quick" else QUICK_LIMITS
    for i, old in enumerate(chs):
        if i % shard["parts"] != shard["part"]:
            continue
        for new in chs:
            out.sadd("state_keys", hash((old, new)))
            first = True
            for itemsize in ITEMSIZES:
                for t in thr:
                    for l in lim:
                        for d in DEGREES:
                            _check_plan(old, new, itemsize, t, l, d, out, do_exec=first or (d == 2 and l == 1 and t == thr[0] and itemsize == 1))
                            first = False
    return out.result()


def coverage(agg, plan):
    c = agg.counters
    return {"states": len(agg.sets.get("state_keys", ())), "transitions": c["transitions"], "traces_validated_against_impl": c["accepted"], "evaluations": c["evaluations"], "distinct_nontrivial": c["nontrivial"], "layers_executed": c["layers_executed"]}


def vacuity(agg, plan):
    c = agg.counters
    v = []
    if c["multi_step_plans"] < 50:
        v.append(f"only {c['multi_step_plans']} multi-step plans explored")
    if c["layers_executed"] < 500:
        v.append("too few rechunk layers executed")
    return v


def replay(case):
    out = ShardOut()
    if case.get("what") == "helper":
        _check_helper(case["fn"], tuple(case["desired"]), case["arg"], out)
        return out.failures[0] if out.failures else None
    old = tuple(tuple(c) for c in case["old"])
    new = tuple(tuple(c) for c in case["new"])
    _check_plan(old, new, case["itemsize"], case["threshold"], case["limit"], case["degree"], out, do_exec=True)
    return out.failures[0] if out.failures else None
