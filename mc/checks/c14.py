"""C14 — rechunking yields the requested chunks with unchanged values (E1)."""

from __future__ import annotations

import itertools

import numpy as np

from mc import casecheck as CC
from mc import explorer as E
from mc.domains import compositions


def _expected_chunks(case, y, val, ref, a, x):
    """Extra oracle: y.chunks == normalize_chunks(resolved spec, shape,
    previous_chunks=parent chunks) (+ the documented balance transform)."""
    import dask_array as da
    from dask_array._core_utils import normalize_chunks

    spec = case.get("spec")
    if spec is None:
        return None
    from mc import userfns

    env = {"np": np, "da": da, "x": x, "a": a, "uf": userfns}
    parent = eval(case["parent_expr"], env) if case.get("parent_expr") else x
    sp = eval(spec, {"None": None})
    nd = parent.ndim
    if isinstance(sp, dict):
        sp = {(k % nd if isinstance(k, int) else k): v for k, v in sp.items()}
        full = tuple(sp.get(i, parent.chunks[i]) for i in range(nd))
        full = tuple(parent.chunks[i] if full[i] is None else full[i] for i in range(nd)) if False else full
        # None inside a dict keeps the existing chunks of that axis
        sp = tuple(parent.chunks[i] if (i in sp and sp[i] is None) else full[i] for i in range(nd))
    elif isinstance(sp, tuple) and len(sp) == nd:
        sp = tuple(parent.chunks[i] if s is None else s for i, s in enumerate(sp))
    kwargs = {}
    if case.get("limit") is not None:
        kwargs["limit"] = case["limit"]
    try:
        want = normalize_chunks(sp, parent.shape, dtype=parent.dtype, previous_chunks=parent.chunks, **kwargs)
    except Exception as e:  # noqa: BLE001
        return ("oracle-raise", f"normalize_chunks({sp}) raised {type(e).__name__}: {e} although rechunk accepted the spec")
    if case.get("balance"):
        return None  # balance has its own check below
    if tuple(y.chunks) != tuple(want):
        return ("wrong-chunks", f"rechunk({spec}) has chunks {y.chunks}; normalize_chunks gives {want} (parent chunks {parent.chunks})")
    return None


def _specs_1d(n):
    specs = [repr((c,)) for c in compositions(n)]
    specs += [str(k) for k in range(1, n + 2)]
    specs += ["-1", "(None,)", "{0: -1}", "{0: 2}", "{-1: 1}", "{0: None}", "'auto'", "'16B'", "'64B'", "(-1,)", "('auto',)"]
    return specs


def _gen_1d(n, ch):
    src = E.src((n,), (ch,))
    for spec in _specs_1d(n):
        yield {"source": src, "expr": f"x.rechunk({spec})", "nexpr": "a", "label": "rechunk", "spec": spec}
    for spec in ["2", "3", "(2,)"]:
        yield {"source": src, "expr": f"x.rechunk({spec}, method='tasks')", "nexpr": "a", "label": "rechunk-tasks", "spec": spec}
        yield {"source": src, "expr": f"x.rechunk({spec}, threshold=1, block_size_limit=8)", "nexpr": "a", "label": "rechunk-planner", "spec": spec}
    for k in (2, 3, 4):
        yield {"source": src, "expr": f"x.rechunk({k}, balance=True)", "nexpr": "a", "label": "rechunk-balance", "spec": str(k), "balance": True}
    # balance=True above an elemwise, observed block by block (the balanced layout
    # is what the node advertises; the pushed-down rechunks must deliver it)
    for k in (2, 3, 4, 5):
        for prod, nprod in (("(x + 1)", "(a + 1)"), ("(x + x[::-1])", "(a + a[::-1])"), ("da.where(x > 12, x, 0)", "np.where(a > 12, a, 0)")):
            r = f"{prod}.rechunk({k}, balance=True)"
            yield {"source": src, "expr": r, "nexpr": nprod, "label": "rechunk-balance-elemwise", "np_raises_must_raise": False}
            yield {"source": src, "expr": f"{r}.blocks[0]", "nexpr": f"{nprod}[: {r}.chunks[0][0]]", "label": "rechunk-balance-elemwise-blocks", "np_raises_must_raise": False}
            yield {"source": src, "expr": f"{r}.blocks[-1]", "nexpr": f"{nprod}[-{r}.chunks[0][-1] :]", "label": "rechunk-balance-elemwise-blocks", "np_raises_must_raise": False}
            yield {"source": src, "expr": f"da.map_blocks(uf.demean0, {r}, dtype='f8')", "nexpr": f"uf.np_blockmap(uf.demean0, {nprod}, {r}.chunks)", "label": "rechunk-balance-elemwise-blockfn", "exact": False, "np_raises_must_raise": False}
    # rechunk at every position of short programs
    for tgt in [str(k) for k in (1, 2, 3)] + ["-1"] + [repr((c,)) for c in compositions(n)[::5]]:
        progs = [
            ("(x + 1).rechunk({t})", "a + 1", "(x + 1)"),
            ("(x + x[::-1]).rechunk({t})", "a + a[::-1]", "(x + x[::-1])"),
            ("x.rechunk({t}) + 1", "a + 1", None),
            ("x[1:].rechunk({t})", "a[1:]", "x[1:]"),
            ("x.rechunk({t})[1:]", "a[1:]", None),
            ("x[::2].rechunk({t})", "a[::2]", "x[::2]"),
            ("x.rechunk(2).rechunk({t})", "a", "x.rechunk(2)"),
            ("x.rechunk({t}).rechunk(3)", "a", None),
            ("da.concatenate([x, x + 1]).rechunk({t})", "np.concatenate([a, a + 1])", "da.concatenate([x, x + 1])"),
            ("da.concatenate([x[:2], x[2:]]).rechunk({t})", "np.concatenate([a[:2], a[2:]])", "da.concatenate([x[:2], x[2:]])"),
            ("da.expand_dims(x, 0).rechunk({{1: {t}}})", "np.expand_dims(a, 0)", None),
            ("x.rechunk({t}).sum()", "a.sum()", None),
            ("da.where(x > 12, x, 0).rechunk({t})", "np.where(a > 12, a, 0)", "da.where(x > 12, x, 0)"),
            # ufunc with array where= / out= below the rechunk, and consumers that
            # observe the delivered grid (block-dependent function, .blocks)
            ("da.add(x, 1000, where=x > 12, out=x * 0).rechunk({t})", "np.add(a, 1000, where=a > 12, out=a * 0)", "da.add(x, 1000, where=x > 12, out=x * 0)"),
            ("da.map_blocks(uf.demean0, da.add(x, 1000, where=x > 12, out=x * 0).rechunk({t}), dtype='f8')", "uf.np_blockmap(uf.demean0, np.add(a, 1000, where=a > 12, out=a * 0), x.rechunk({t}).chunks)", None),
            ("da.add(x, 1000, where=x > 12, out=x * 0).rechunk({t}).blocks[0]", "np.add(a, 1000, where=a > 12, out=a * 0)[: x.rechunk({t}).chunks[0][0]]", None),
            ("da.map_blocks(uf.demean0, (x + x[::-1]).rechunk({t}), dtype='f8')", "uf.np_blockmap(uf.demean0, a + a[::-1], x.rechunk({t}).chunks)", None),
            ("(x + x[::-1]).rechunk({t}).blocks[-1]", "(a + a[::-1])[-x.rechunk({t}).chunks[0][-1] :]", None),
            ("da.map_blocks(uf.demean0, da.concatenate([x[:2], x[2:]]).rechunk({t}), dtype='f8')", "uf.np_blockmap(uf.demean0, a, x.rechunk({t}).chunks)", None),
        ]
        for dexpr, nexpr, parent in progs:
            if "expand_dims" in dexpr and not tgt.lstrip("-").isdigit():
                continue
            c = {"source": src, "expr": dexpr.format(t=tgt), "nexpr": nexpr.replace("{t}", tgt), "label": "rechunk-in-program", "exact": "sum" not in dexpr, "np_raises_must_raise": False}
            if tgt.startswith("("):
                # an explicit chunking of length n does not fit programs that change the length
                c["may_refuse"] = ["ValueError"]
            if parent is not None:
                c["spec"] = tgt
                c["parent_expr"] = parent
            yield c
    # unknown sizes along an untouched axis
    if n >= 2:
        yield {"source": src, "expr": "da.stack([x, x])[:, x > 12].rechunk({0: 1})", "nexpr": "np.stack([a, a])[:, a > 12]", "label": "rechunk-unknown-axis", "may_refuse": ["ValueError"]}


def _gen_2d(shape, chunks):
    src = E.src(shape, chunks)
    chs = list(itertools.product(*[compositions(s) for s in shape]))
    for c in chs[::3]:
        yield {"source": src, "expr": f"x.rechunk({c!r})", "nexpr": "a", "label": "rechunk-2d", "spec": repr(c)}
    for spec in ["1", "2", "(2, 3)", "(-1, 1)", "(1, -1)", "{0: -1}", "{1: 2}", "{-1: -1}", "(None, 2)", "('auto', 1)", "'auto'", "'32B'", "{0: 'auto', 1: -1}", "-1"]:
        yield {"source": src, "expr": f"x.rechunk({spec})", "nexpr": "a", "label": "rechunk-2d", "spec": spec}
    yield {"source": src, "expr": "x.rechunk(2, balance=True)", "nexpr": "a", "label": "rechunk-balance", "spec": "2", "balance": True}
    yield {"source": src, "expr": "x.rechunk('auto', block_size_limit=32)", "nexpr": "a", "label": "rechunk-limit", "spec": "'auto'", "limit": 32}
    for tgt in ["(-1, 1)", "(1, -1)", "2", "(2, 3)"]:
        progs = [
            ("x.T.rechunk({t})", "a.T", "x.T"),
            ("x.rechunk({t}).T", "a.T", None),
            ("(x + x[:1]).rechunk({t})", "a + a[:1]", "(x + x[:1])"),
            ("(x * x[:, :1]).rechunk({t})", "a * a[:, :1]", "(x * x[:, :1])"),
            ("da.concatenate([x, x], axis=1).rechunk({t})", "np.concatenate([a, a], axis=1)", "da.concatenate([x, x], axis=1)"),
            ("da.concatenate([x, x], axis=0).rechunk({t})", "np.concatenate([a, a], axis=0)", "da.concatenate([x, x], axis=0)"),
            ("x[1:, ::2].rechunk({t})", "a[1:, ::2]", "x[1:, ::2]"),
            ("x.rechunk({t})[1:, 1:]", "a[1:, 1:]", None),
            ("da.expand_dims(x, 1).rechunk({t} if False else 1)", "np.expand_dims(a, 1)", None),
            ("x.rechunk({t}).sum(axis=0)", "a.sum(axis=0)", None),
            ("da.stack([x, x + 1]).rechunk({{1: 1}})", "np.stack([a, a + 1])", None),
            ("da.add(x, 1000, where=x > 12, out=x * 0).rechunk({t})", "np.add(a, 1000, where=a > 12, out=a * 0)", "da.add(x, 1000, where=x > 12, out=x * 0)"),
            ("da.map_blocks(uf.demean0, da.add(x, 1000, where=x > 12, out=x * 0).rechunk({t}), dtype='f8')", "uf.np_blockmap(uf.demean0, np.add(a, 1000, where=a > 12, out=a * 0), x.rechunk({t}).chunks)", None),
            ("da.add(x, 1000, where=x > 12, out=x * 0).rechunk({t}).blocks[0, 0]", "np.add(a, 1000, where=a > 12, out=a * 0)[: x.rechunk({t}).chunks[0][0], : x.rechunk({t}).chunks[1][0]]", None),
            ("da.map_blocks(uf.demean0, (x + x[:1]).rechunk({t}), dtype='f8')", "uf.np_blockmap(uf.demean0, a + a[:1], x.rechunk({t}).chunks)", None),
        ]
        for dexpr, nexpr, parent in progs:
            if shape[0] != shape[1] and ".T.rechunk" in dexpr and tgt == "(2, 3)":
                pass
            c = {"source": src, "expr": dexpr.format(t=tgt), "nexpr": nexpr.replace("{t}", tgt), "label": "rechunk-in-program-2d", "exact": "sum" not in dexpr, "np_raises_must_raise": False}
            if parent is not None:
                c["spec"] = tgt
                c["parent_expr"] = parent
            yield c


def _gen_zero_blocks(n, ch):
    """Sources that contain zero-width blocks (as compute_chunk_sizes leaves
    them behind), below producers a rechunk cannot be absorbed into."""
    src = E.src((n,), (ch,))
    targets = [str(k) for k in range(1, n + 1)] + ["-1"] + [repr((c,)) for c in compositions(n)[::3]]
    for t in targets:
        for prod, nprod in (("da.map_blocks(uf.ub_neg, x, dtype='f8')", "-a"), ("x.persist(scheduler='sync')", "a"), ("x", "a"), ("(x + 1)", "a + 1")):
            yield {"source": src, "expr": f"{prod}.rechunk({t})", "nexpr": nprod, "label": "rechunk-zero-blocks", "spec": t, "parent_expr": prod, "np_raises_must_raise": False}


def gen_cases(shard):
    if shard["what"] == "1dz":
        yield from _gen_zero_blocks(shard["n"], tuple(shard["chunks"]))
        return
    if shard["what"] == "1d":
        yield from _gen_1d(shard["n"], tuple(shard["chunks"]))
    else:
        yield from _gen_2d(tuple(shard["shape"]), tuple(tuple(c) for c in shard["chunks"]))


def plan_shards(tier):
    shards = []
    nmax = 5 if tier == "quick" else 6
    for n in range(0, nmax + 1):
        for ch in compositions(n):
            shards.append({"what": "1d", "n": n, "chunks": list(ch)})
    from mc.domains import chz

    for n in (4, 5) if tier == "quick" else (3, 4, 5, 6):
        zs = [c for c in chz(n, 1) if 0 in c]
        for ch in zs[:: (2 if tier == "quick" else 1)]:
            shards.append({"what": "1dz", "n": n, "chunks": list(ch)})
    for shp in [(3, 4)] + ([(2, 2), (0, 3)] if tier != "quick" else []):
        chs = list(itertools.product(*[compositions(s) for s in shp]))
        for c in chs[:: (3 if tier == "quick" else 1)]:
            shards.append({"what": "2d", "shape": list(shp), "chunks": [list(k) for k in c]})
    return shards


def _extra(case, y, val, ref, a, x):
    r = _expected_chunks(case, y, val, ref, a, x)
    if r:
        return r
    if case.get("balance"):
        # documented: balancing evens the chunks out and removes small leftover
        # chunks (sizes may grow slightly), so it never yields MORE blocks than
        # the plain rechunk and the block sizes differ by at most ... the spread
        # of the plain result
        k = int(eval(case["spec"]))
        for c in y.chunks:
            n = sum(c)
            plain = -(-n // k) if n else 1
            if len(c) > plain:
                return ("balance-more-blocks", f"balance=True chunks {y.chunks} have more blocks than the plain rechunk({k}) ({plain})")
            if c and n and max(c) - min(c) > max(k, 1):
                return ("balance-uneven", f"balance=True chunks {y.chunks} are less even than the request {k}")
    return None


_m = CC.make(
    "C14", gen_cases, plan_shards,
    rule="(sources with a zero-width block at every position, below map_blocks / persisted / plain / elemwise producers, to every target; rechunk also below consumers that observe the delivered grid: block-dependent map_blocks and .blocks, over plain, where=/out= and concatenate producers) every source chunking of n<=6 (and of (3,4)) x every target spec (every explicit chunking, ints 1..n+1, -1, None, dicts incl. negative axes, 'auto', byte strings, method='tasks', planner knobs, balance=True): chunks == normalize_chunks(spec, shape, previous_chunks), values unchanged, every block has the advertised size; plus a rechunk at every position of short programs over elemwise/broadcast/transpose/concatenate/expand_dims/slice/second rechunk/reduction, and an unknown-size axis left untouched. Non-trivial = multi-block source and non-empty result",
    assumptions=["normalize_chunks (checked separately in C16) resolves the spec", "NumPy values are the reference (rechunk is the identity on values)"],
    floors={"accepted": 3000},
    extra=_extra,
)
globals().update(_m)
