"""C29 — building and inspecting arrays never touches data (E1)."""

from __future__ import annotations

import contextlib
import io

import numpy as np

from mc import explorer as E
from mc import ops as OPS
from mc import userfns
from mc.common import ShardOut

PROPERTY = "C29"

OPS29 = [
    "sl_1_4", "sl_s2", "sl_rev", "ix_1", "ix_none", "sl2_a", "tk_201", "add1", "add_row", "add_0d", "where_gt", "as_f4", "T", "rs_m1", "rs_2_m1", "exp0", "squeeze", "flip0", "roll1",
    "cat_parts", "cat_self", "stack0", "bcast", "pad1", "tile2", "rc2", "rc_all", "rc_bal", "sum0", "mean_se2", "argmax0", "topk2", "var_dd1", "cumsum0", "cumsumm1_bl",
    "swv2", "swv2_sum", "swv3_max", "diff", "ovl_reflect", "ovl_periodic", "bn_move_sum3", "mb_double", "mb_demean", "mb_demean_chunks",
    "mb_touch", "mb_touch_nodtype", "mo_touch", "mo_touch_nodtype", "bw_touch", "red_touch", "outer_sincos", "tdot", "isin", "set_sl", "set_mask", "set_daskval", "set_daskval_mb", "add_where_out",
    "b_add", "b_cat",
]

ACCESSORS = [
    ("shape", lambda y: y.shape), ("chunks", lambda y: y.chunks), ("dtype", lambda y: y.dtype), ("name", lambda y: y.name), ("ndim", lambda y: y.ndim),
    ("__dask_keys__", lambda y: y.__dask_keys__()), ("repr", lambda y: repr(y)), ("_repr_html_", lambda y: y._repr_html_()), ("len", lambda y: len(y) if y.ndim else None),
    ("numblocks", lambda y: y.numblocks), ("npartitions", lambda y: y.npartitions), ("nbytes", lambda y: y.nbytes), ("size", lambda y: y.size), ("chunksize", lambda y: y.chunksize),
    ("_meta", lambda y: y._meta), ("transfer_bytes", lambda y: y.transfer_bytes), ("pprint", lambda y: y.pprint()), ("simplify", lambda y: y.simplify()),
    ("expr.optimize", lambda y: y.expr.optimize()), ("optimize", lambda y: y.optimize()), ("__dask_graph__", lambda y: y.__dask_graph__()),
    ("explain", lambda y: __import__("dask_array").explain(y) if hasattr(__import__("dask_array"), "explain") else None),
    ("chunk_report", lambda y: __import__("dask_array").chunk_report(y) if hasattr(__import__("dask_array"), "chunk_report") else None),
    ("expr_table", lambda y: __import__("dask_array").expr_table(y) if hasattr(__import__("dask_array"), "expr_table") else None),
    ("to_delayed", lambda y: y.to_delayed()), ("blocks", lambda y: y.blocks[0] if y.ndim else None), ("frisky_keys", lambda y: y.__frisky_output_keys__()),
]


def _clean(what, ctx):
    probes = [e for e in userfns.TOUCH if e[0] == "userfn" and e[1].endswith("-probe")]
    if probes:
        # dtype/meta inference on a one-element array of ones: fake data, not the user's
        ctx.out.count("meta_probe_calls", len(probes))
        userfns.TOUCH[:] = [e for e in userfns.TOUCH if e not in probes]
    if userfns.TOUCH:
        t = list(userfns.TOUCH)
        userfns.TOUCH.clear()
        kinds = sorted({e[0] + (":" + e[1] if e[0] == "userfn" else "") for e in t})
        last = ctx.case["steps"][-1][0] if ctx.case["steps"] else "source"
        return [{"kind": "data-touched", "signature": f"data-touched:{what}:{'+'.join(kinds)}:{last}", "detail": f"{what} touched data before any graph was executed: {t[:4]}"}]
    return []


def monitor(ctx):
    out = ctx.out
    out.count("evaluations")
    if ctx.case["steps"]:
        out.count("nontrivial")
    # construction happened just before this call
    f = _clean("construction", ctx)
    if f:
        return f
    y = ctx.y
    for name, fn in ACCESSORS:
        try:
            with contextlib.redirect_stdout(io.StringIO()), contextlib.redirect_stderr(io.StringIO()):
                fn(y)
        except Exception:
            out.count("accessor_raised")
            userfns.TOUCH.clear()
            continue
        out.count("accessor_calls")
        f = _clean(name, ctx)
        if f:
            return f
    # sanity: executing the graph DOES read (otherwise the recorders are blind)
    try:
        y.compute(scheduler="sync")
        if userfns.TOUCH:
            out.count("compute_read_data")
    except Exception:
        pass
    userfns.TOUCH.clear()
    return []


def plan(tier, seed):
    srcs = []
    layouts = [((6,), ((2, 1, 3),)), ((3, 4), ((1, 2), (2, 2)))] + ([((6,), ((6,),)), ((6,), ((1,) * 6,)), ((3, 4), ((3,), (4,))), ((2, 3, 2), ((1, 1), (2, 1), (2,)))] if tier != "quick" else [])
    for shape, chunks in layouts:
        for kw in ({}, {"inline_array": True}, {"lock": True}, {"fancy": False}, {"asarray": False}) if tier != "quick" else ({}, {"inline_array": True, "lock": True}):
            srcs.append(dict(E.src(shape, chunks), recsource=True, from_array_kwargs=kw))
    # integer sources too: assignment into integer arrays validates the value
    srcs += [dict(E.src(shape, chunks, "i8"), recsource=True, from_array_kwargs={}) for shape, chunks in layouts[:2]]
    ops = OPS.subset(names=OPS29)
    shards = E.plan_shards(srcs, ops, 2)
    return {
        "shards": shards,
        "coverage": {
            "exhaustive": True,
            "bounds": {"depth": 2, "ops": len(ops), "sources": len(srcs), "accessors": len(ACCESSORS)},
            "rule": "every depth<=2 program over recording sources (array-likes that log every non-empty __getitem__ and every __array__; from_array with default / inline_array / lock / fancy=False / asarray=False) and recording user functions under map_blocks (with and without dtype=), map_overlap, blockwise and reduction: after each construction step and after each of the accessors (shape, chunks, dtype, name, keys, repr, _repr_html_, len, numblocks, npartitions, nbytes, size, _meta, transfer_bytes, pprint, simplify, optimize, __dask_graph__, explain, chunk_report, expr_table, to_delayed, blocks, frisky output keys) the logs must be empty; computing afterwards must register reads (recorders are live). Non-trivial = program with >= 1 op",
        },
        "assumptions": ["building __dask_graph__() must not read from a non-NumPy source either (lazy FromArray layer)", "a user function called on an empty block, or on a synthetic one-element block of ones (dask's documented dtype inference on fake data), is not a data access"],
    }


def run_shard(shard):
    userfns.TOUCH.clear()
    return E.Explorer(shard, monitor).run().result()


def coverage(agg, plan):
    c = agg.counters
    return {"states": len(agg.sets.get("state_keys", ())), "transitions": c["transitions"], "traces_validated_against_impl": c["evaluations"], "evaluations": c["evaluations"], "distinct_nontrivial": c["nontrivial"], "accessor_calls": c["accessor_calls"], "compute_read_data": c["compute_read_data"]}


def vacuity(agg, plan):
    c = agg.counters
    v = []
    if c["accessor_calls"] < 20000:
        v.append(f"only {c['accessor_calls']} accessor calls")
    if c["compute_read_data"] < c["evaluations"] // 2:
        v.append("the recorders did not register reads during compute: blind")
    return v


def replay(case):
    userfns.TOUCH.clear()
    return E.replay_program(case, monitor)
