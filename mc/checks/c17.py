"""C17 — chunk unification aligns operands without changing values or
inflating blocks (E2 over unify_chunks_expr + E1-style value check)."""

from __future__ import annotations

import itertools
import math
import warnings

import dask
import numpy as np

from mc.common import ShardOut
from mc.domains import compositions

PROPERTY = "C17"

POLICIES = ["auto", "coarse", "refine"]
LIMITS = [None, "16B", "48B", "512MiB"]
DT = ["i1", "f8"]


def plan(tier, seed):
    shards = []
    n1 = 5 if tier == "quick" else 6
    ch = compositions(n1)
    for i in range(len(ch)):
        shards.append({"what": "pair1d", "n": n1, "i": i})
    n3 = 4 if tier == "quick" else 5
    for i in range(len(compositions(n3))):
        shards.append({"what": "triple1d", "n": n3, "i": i})
    shp = (2, 3) if tier == "quick" else (3, 4)
    ch2 = list(itertools.product(*[compositions(s) for s in shp]))
    for i in range(len(ch2)):
        shards.append({"what": "pair2d", "shape": list(shp), "i": i})
    for i in range(len(ch2)):
        shards.append({"what": "bcast", "shape": list(shp), "i": i})
    nw = 4 if tier == "quick" else 5
    for i in range(len(compositions(nw))):
        shards.append({"what": "whereout1d", "n": nw, "i": i})
    return {
        "shards": shards,
        "coverage": {
            "exhaustive": True,
            "bounds": {"pair_1d_n": n1, "triple_1d_n": n3, "pair_2d_shape": list(shp), "policies": POLICIES, "limits": [str(l) for l in LIMITS], "dtypes": DT},
            "rule": "(plus np.add(x, y, where=m, out=o) for every quadruple of chunkings of a short axis: out and the returned array equal NumPy) unify_chunks_expr for every pair of chunkings of a 1-D axis, every triple on a smaller axis, every pair of 2-D chunkings and every broadcast pattern (size-1 axis, missing leading axis, 0-d) x dtype pairs (i1/f8 byte ratios) x policy x limit: every non-broadcast operand ends on the common layout per index, under refine every operand's boundaries are a subset of the unified ones, under every policy no operand's largest block exceeds max(limit, its own largest block), and a+b / blockwise computes the NumPy value. Non-trivial = operands with different chunkings",
        },
        "assumptions": ["array.unify-chunks-limit None means unbounded (no growth clause to check)", "synchronous scheduler for the value check"],
    }


def _mk(shape, chunks, dtype, off=0):
    import dask_array as da

    n = int(np.prod(shape)) if shape else 1
    a = (np.arange(n).reshape(shape) + 1 + off).astype(dtype)
    return a, da.from_array(a, chunks=chunks)


def _bounds(c):
    return set(np.cumsum(c)[:-1].tolist())


def _bytes(chunks, shape, itemsize):
    r = itemsize
    for c, s in zip(chunks, shape):
        r *= max(c) if c else 0
    return r


def _check(ops, policy, limit, out, values=True):
    """ops: list of (numpy, dask array, index tuple)."""
    from dask.utils import parse_bytes

    from dask_array._expr import unify_chunks_expr

    out.count("evaluations")
    out.count("transitions")
    case = {"ops": [{"shape": list(a.shape), "chunks": [list(c) for c in x.chunks], "dtype": str(a.dtype), "ind": list(ind)} for a, x, ind in ops], "policy": policy, "limit": limit}
    desc = f"policy={policy} limit={limit} operands=" + "; ".join(f"{tuple(a.shape)}/{x.chunks}/{a.dtype}@{ind}" for a, x, ind in ops)

    def bad(kind, msg):
        out.fail({"kind": kind, "signature": f"{kind}:{policy}", "case": case, "detail": desc + " : " + msg})

    args = []
    for a, x, ind in ops:
        args += [x.expr, tuple(ind)]
    with dask.config.set({"array.unify-chunks-policy": policy, "array.unify-chunks-limit": limit}), warnings.catch_warnings():
        warnings.simplefilter("ignore")
        try:
            chunkss, arrays, changed = unify_chunks_expr(*args)
        except Exception as e:
            return bad("raise", f"unify_chunks_expr raised {type(e).__name__}: {e}")
        out.count("accepted")
        sizes = {}
        for a, x, ind in ops:
            for n, j in enumerate(ind):
                if a.shape[n] != 1:
                    sizes[j] = a.shape[n]
        for j, c in chunkss.items():
            if j in sizes and sum(c) != sizes[j]:
                return bad("layout-sum", f"unified layout for index {j} is {c}, does not sum to {sizes[j]}")
        lim = parse_bytes(limit) if isinstance(limit, str) else limit
        for (a, x, ind), arr in zip(ops, arrays):
            for n, j in enumerate(ind):
                got = arr.chunks[n]
                if a.shape[n] == 1 and sizes.get(j, 1) != 1:
                    if tuple(got) != (1,):
                        return bad("broadcast-axis-changed", f"broadcast axis {n} of operand {x.chunks} became {got}")
                    continue
                if tuple(got) != tuple(chunkss[j]):
                    return bad("not-common-layout", f"operand {x.chunks} axis {n} ends on {got}, common layout for index {j} is {chunkss[j]}")
                if policy == "refine" and not _bounds(x.chunks[n]) <= _bounds(got):
                    return bad("refine-merged", f"refine merged blocks of operand {x.chunks} axis {n}: {x.chunks[n]} -> {got}")
            if lim is not None:
                before = _bytes(x.chunks, a.shape, a.dtype.itemsize)
                after = _bytes(arr.chunks, a.shape, a.dtype.itemsize)
                if after > max(lim, before):
                    return bad("block-inflated", f"operand {x.chunks} ({a.dtype}) largest block grew {before}B -> {after}B > max(limit {lim}B, own)")
        if values:
            import dask_array as da

            try:
                if len(ops) == 2 and all(len(ind) == a.ndim for a, x, ind in ops):
                    # elemwise with broadcasting, when the index patterns are plain trailing alignment
                    want = None
                    (a0, x0, i0), (a1, x1, i1) = ops
                    if tuple(i0)[-len(i1):] == tuple(i1) or not i1:
                        want = a0 + a1
                        got = (x0 + x1).compute(scheduler="sync")
                    if want is not None:
                        out.count("value_checks")
                        if np.shape(got) != want.shape or not np.array_equal(got, want):
                            return bad("value", f"x+y = {np.asarray(got).tolist()} != numpy {want.tolist()}")
                # generic blockwise sum over the union index
                labels = sorted({j for _, _, ind in ops for j in ind})
                if labels and all(list(ind) == [l for l in labels if l in ind] for _, _, ind in ops):
                    bw_args = []
                    for a, x, ind in ops:
                        bw_args += [x, tuple(ind)]
                    y = da.blockwise(_addall, tuple(labels), *bw_args, dtype="f8")
                    got = y.compute(scheduler="sync")
                    full = 0
                    for a, x, ind in ops:
                        shp = [1] * len(labels)
                        perm = a
                        idx = [labels.index(j) for j in ind]
                        expand = np.zeros([a.shape[list(ind).index(l)] if l in ind else 1 for l in labels])
                        src = np.transpose(a, np.argsort(idx)) if len(idx) > 1 else a
                        full = full + src.reshape(expand.shape).astype("f8")
                    out.count("value_checks")
                    if np.shape(got) != np.shape(full) or not np.array_equal(got, full):
                        return bad("value", f"blockwise sum = {np.asarray(got).tolist()} != numpy {np.asarray(full).tolist()}")
            except NotImplementedError:
                out.count("refused")
            except Exception as e:
                return bad("compute-raise", f"computing raised {type(e).__name__}: {str(e)[:200]}")
    if len({x.chunks for a, x, ind in ops if a.ndim}) > 1:
        out.count("nontrivial")
    if changed:
        out.count("rechunked")
    out.sadd("state_keys", hash((repr(case["ops"]))))
    if changed and len(out.samples) < 1:
        out.sample(desc + f" -> {chunkss}")


def _addall(*blocks):
    r = 0
    for b in blocks:
        r = r + b.astype("f8")
    return r


def _check_whereout(n, cx, cy, cw, co, policy, out):
    """np.add(x, y, where=m, out=o) with four independently chunked operands:
    the ufunc path unifies inputs, mask and out onto one layout."""
    import dask_array as da

    out.count("evaluations")
    out.count("transitions")
    a, b = np.arange(n) + 1.0, (np.arange(n) + 1.0) * 10
    m = np.arange(n) % 2 == 0
    o0 = np.full(n, -1.0)
    case = {"what": "whereout", "n": n, "cx": list(cx), "cy": list(cy), "cw": list(cw), "co": list(co), "policy": policy}
    desc = f"policy={policy}: da.add(x{cx}, y{cy}, where=m{cw}, out=o{co}) on length {n}"
    want = np.add(a, b, where=m, out=o0.copy())
    try:
        with dask.config.set({"array.unify-chunks-policy": policy}):
            x, y = da.from_array(a, chunks=(cx,)), da.from_array(b, chunks=(cy,))
            mm, o = da.from_array(m, chunks=(cw,)), da.from_array(o0.copy(), chunks=(co,))
            r = da.add(x, y, where=mm, out=o)
            got = o.compute(scheduler="sync")
            got_r = r.compute(scheduler="sync") if r is not o else got
    except NotImplementedError:
        out.count("refused")
        return
    except Exception as e:  # noqa: BLE001
        return out.fail({"kind": "whereout-raise", "signature": f"whereout-raise:{type(e).__name__}", "case": case, "detail": desc + f" raised {type(e).__name__}: {str(e)[:200]}"})
    out.count("accepted")
    out.count("value_checks")
    out.sadd("state_keys", hash(("wo", cx, cy, cw, co)))
    if len({cx, cy, cw, co}) > 1:
        out.count("nontrivial")
        out.count("rechunked")
    for what, g in (("out array", got), ("returned array", got_r)):
        if np.shape(g) != want.shape or not np.array_equal(g, want):
            return out.fail({"kind": "whereout-value", "signature": "whereout-value", "case": case, "detail": desc + f": {what} = {np.asarray(g).tolist()} != numpy {want.tolist()}"})
    if tuple(o.chunks) != (tuple(co),) and sum(o.chunks[0]) != n:
        return out.fail({"kind": "whereout-chunks", "signature": "whereout-chunks", "case": case, "detail": desc + f": out advertises chunks {o.chunks}"})


def run_shard(shard):
    out = ShardOut()
    w = shard["what"]
    if w == "whereout1d":
        n = shard["n"]
        chs = compositions(n)
        cx = chs[shard["i"]]
        for cy in chs:
            for cw in chs:
                for co in chs:
                    for pol in POLICIES if cy == cx else ["auto"]:
                        _check_whereout(n, cx, cy, cw, co, pol, out)
        return out.result()
    if w == "pair1d":
        n = shard["n"]
        chs = compositions(n)
        c0 = chs[shard["i"]]
        for c1 in chs:
            for d0, d1 in [("f8", "f8"), ("i1", "f8"), ("f8", "i1")]:
                ops = [_mk((n,), (c0,), d0) + (("i",),), _mk((n,), (c1,), d1, 7) + (("i",),)]
                for pol in POLICIES:
                    for lim in LIMITS:
                        _check(ops, pol, lim, out, values=(d0 == "f8" and d1 == "f8" and lim in (None, "16B")) or (lim == "16B" and pol == "auto"))
    elif w == "triple1d":
        n = shard["n"]
        chs = compositions(n)
        c0 = chs[shard["i"]]
        for c1 in chs:
            for c2 in chs:
                for dts in [("f8", "f8", "f8"), ("i1", "f8", "i1")]:
                    ops = [_mk((n,), (c,), d, k) + (("i",),) for k, (c, d) in enumerate(zip((c0, c1, c2), dts))]
                    for pol in POLICIES:
                        for lim in (None, "16B"):
                            _check(ops, pol, lim, out, values=(pol == "auto" and dts[0] == "f8" and lim is None))
    elif w == "pair2d":
        shp = tuple(shard["shape"])
        chs = list(itertools.product(*[compositions(s) for s in shp]))
        c0 = chs[shard["i"]]
        for c1 in chs:
            for d0, d1 in [("f8", "f8"), ("i1", "f8")]:
                ops = [_mk(shp, c0, d0) + (("i", "j"),), _mk(shp, c1, d1, 3) + (("i", "j"),)]
                for pol in POLICIES:
                    for lim in LIMITS:
                        _check(ops, pol, lim, out, values=(lim in (None, "16B") and d0 == "f8"))
            # transposed index pattern (blockwise with swapped labels)
            shpT = shp[::-1]
            for cT in list(itertools.product(*[compositions(s) for s in shpT]))[::3]:
                ops = [_mk(shp, c0, "f8") + (("i", "j"),), _mk(shpT, cT, "f8", 3) + (("j", "i"),)]
                for pol in POLICIES:
                    _check(ops, pol, None, out, values=False)
    elif w == "bcast":
        shp = tuple(shard["shape"])
        chs = list(itertools.product(*[compositions(s) for s in shp]))
        c0 = chs[shard["i"]]
        for pol in POLICIES:
            for lim in (None, "16B"):
                for c1 in compositions(shp[1]):
                    # lower rank operand
                    _check([_mk(shp, c0, "f8") + (("i", "j"),), _mk((shp[1],), (c1,), "f8", 5) + (("j",),)], pol, lim, out)
                    # size-1 leading axis
                    _check([_mk(shp, c0, "f8") + (("i", "j"),), _mk((1, shp[1]), ((1,), c1), "i1", 5) + (("i", "j"),)], pol, lim, out)
                for cr in compositions(shp[0]):
                    _check([_mk(shp, c0, "f8") + (("i", "j"),), _mk((shp[0], 1), (cr, (1,)), "f8", 5) + (("i", "j"),)], pol, lim, out)
                _check([_mk(shp, c0, "f8") + (("i", "j"),), _mk((), (), "f8", 5) + ((),)], pol, lim, out, values=False)
    return out.result()


def coverage(agg, plan):
    c = agg.counters
    return {"states": len(agg.sets.get("state_keys", ())), "transitions": c["transitions"], "traces_validated_against_impl": c["accepted"], "evaluations": c["evaluations"], "distinct_nontrivial": c["nontrivial"], "value_checks": c["value_checks"], "rechunked": c["rechunked"]}


def vacuity(agg, plan):
    c = agg.counters
    v = []
    if c["rechunked"] < 1000:
        v.append(f"only {c['rechunked']} cases where unification rechunked an operand")
    if c["value_checks"] < 1000:
        v.append("too few value checks")
    return v


def _replay_whereout(case):
    out = ShardOut()
    _check_whereout(case["n"], tuple(case["cx"]), tuple(case["cy"]), tuple(case["cw"]), tuple(case["co"]), case["policy"], out)
    return out.failures[0] if out.failures else None


def replay(case):
    if case.get("what") == "whereout":
        return _replay_whereout(case)
    out = ShardOut()
    ops = []
    for k, o in enumerate(case["ops"]):
        a, x = _mk(tuple(o["shape"]), tuple(tuple(c) for c in o["chunks"]), o["dtype"], [0, 7, 2][k % 3])
        ops.append((a, x, tuple(o["ind"])))
    _check(ops, case["policy"], case["limit"], out)
    return out.failures[0] if out.failures else None
