"""C25 — store writes exactly the array into the requested target regions (E1 depth 1 + E4 histories)."""

from __future__ import annotations

import gc
import itertools
import os
import shutil
import threading

import dask
import numpy as np

from mc import explorer as E
from mc.common import VERIF, ShardOut
from mc.domains import compositions

PROPERTY = "C25"
SENT = -777.0


class Target:
    """Array-like target that records every write."""

    def __init__(self, shape):
        self.a = np.full(shape, SENT)
        self.shape, self.dtype, self.ndim = self.a.shape, self.a.dtype, self.a.ndim
        self.writes = []

    def __setitem__(self, idx, val):
        self.writes.append(idx)
        self.a[idx] = val

    def __getitem__(self, idx):
        return self.a[idx]


def _axis_regions(n, t, tier):
    """Region slices along one axis selecting exactly n of the t target
    positions: contiguous at every offset (quick: first / middle / last) and
    strided (step 2 from 0 and from 1, step 3 from 0) where they fit."""
    offs = list(range(0, t - n + 1))
    if tier == "quick":
        offs = sorted({offs[0], offs[len(offs) // 2], offs[-1]})
    out = [(o, o + n, 1) for o in offs]
    for o, st in ((0, 2), (1, 2), (0, 3)):
        if o + (n - 1) * st < t:
            out.append((o, o + (n - 1) * st + 1, st))
    return out


def _regions(shape, tshape, tier):
    per = [_axis_regions(n, t, tier) for n, t in zip(shape, tshape)]
    return [None] + [list(map(list, p)) for p in itertools.product(*per)]


def _mk_target(kind, tshape):
    return Target(tshape) if kind == "rec" else np.full(tshape, SENT)


def _sl(region):
    return None if region is None else tuple(slice(*r) for r in region)


def _check_target(t, src, reg, tshape, desc, what):
    arr = t.a if isinstance(t, Target) else t
    exp = np.full(tshape, SENT)
    exp[reg if reg is not None else Ellipsis] = src
    if not np.array_equal(arr, exp):
        wrong_in = not np.array_equal(arr[reg if reg is not None else Ellipsis], src)
        return {"kind": "wrong-target", "signature": f"wrong-target:{'inside-region' if wrong_in else 'outside-region'}", "detail": desc + f"\n {what} is {arr.tolist()} expected {exp.tolist()}"}
    if isinstance(t, Target):
        for w in t.writes:
            tup = w if isinstance(w, tuple) else (w,)
            for ax, i in enumerate(tup):
                if isinstance(i, slice) and any(v is not None and not (0 <= v <= tshape[ax]) for v in (i.start, i.stop)):
                    return {"kind": "write-out-of-bounds", "signature": "write-out-of-bounds", "detail": desc + f"\n write request {w} outside the target"}
    return None


def run_case(case, out=None):
    import dask_array as da

    shape = tuple(case["shape"])
    a = np.arange(int(np.prod(shape))).reshape(shape) + 10.0
    x = da.from_array(a, chunks=tuple(tuple(c) for c in case["chunks"]))
    reg = _sl(case["region"])
    tshape = tuple(case["tshape"]) if reg is not None else shape
    kind = case["target"]
    tgt = _mk_target(kind, tshape)
    lock = {"true": True, "false": False, "lock": threading.Lock()}[case["lock"]]
    pairs = case["pairs"]
    desc = f"store(from_array{shape} chunks={case['chunks']}, target{tshape}({kind}), regions={reg}, lock={case['lock']}, compute={case['compute']}, return_stored={case['return_stored']}, load_stored={case.get('load_stored')}, pairs={pairs}, second region={case.get('region2')})"
    sources, targets, regions = x, tgt, reg
    srcs, tgts, regs = [a], [tgt], [reg]
    if pairs != "1":
        if pairs == "2diff":
            b = a * 2
            y = da.from_array(b, chunks=-1)
            reg2 = _sl(case.get("region2")) if reg is not None else None
        else:  # the same source into two distinct targets with equal contents
            b, y, reg2 = a, x, reg
        tgt2 = _mk_target(kind, tshape)
        sources, targets = [x, y], [tgt, tgt2]
        regions = None if reg is None else [reg, reg2]
        srcs, tgts, regs = [a, b], [tgt, tgt2], [reg, reg2]
    returned = None
    try:
        res = da.store(sources, targets, lock=lock, regions=regions, compute=case["compute"], return_stored=case["return_stored"], **({"load_stored": case["load_stored"]} if case.get("load_stored") is not None else {}))
        if not case["compute"] and not case["return_stored"]:
            dask.compute(res, scheduler="sync")
        if case["return_stored"]:
            rs = list(res) if isinstance(res, (tuple, list)) else [res]
            # the stored arrays are lazy when compute=False: each one stores its
            # own target when computed
            if case.get("load_stored") is False and not case["compute"]:
                # blocks are the targets themselves: run the tasks, never assemble
                vals = [r.persist(scheduler="sync") for r in rs]
            else:
                vals = [r.compute(scheduler="sync") if hasattr(r, "compute") else r for r in rs]
            # load_stored=False with compute=False is documented as returning the
            # per-chunk targets ("directly computing this result is not what
            # you want"): only the targets are judged then
            if not (case.get("load_stored") is False and not case["compute"]):
                returned = vals
    except NotImplementedError:
        return "refused", None
    except Exception as e:  # noqa: BLE001
        return None, {"kind": "raise", "signature": f"raise:{E.exc_sig(e)}", "detail": desc + f" raised {type(e).__name__}: {str(e)[:200]}"}

    for i, (t, s, r) in enumerate(zip(tgts, srcs, regs)):
        f = _check_target(t, s, r, tshape, desc, "target" if i == 0 else "second target")
        if f:
            if i:
                f["signature"] += ":second-target"
            return None, f
    if returned is not None:
        if len(returned) != len(srcs):
            return None, {"kind": "returned-count", "signature": "returned-count", "detail": desc + f"\n {len(returned)} arrays returned for {len(srcs)} pairs"}
        for i, (v, s) in enumerate(zip(returned, srcs)):
            bad = E.compare(v, s, exact=True, dtype=False)
            if bad:
                return None, {"kind": "returned-" + bad[0], "signature": f"returned-{bad[0]}:compute={case['compute']},load_stored={case.get('load_stored')}" + (":second" if i else ""), "detail": desc + f"\n returned array #{i}: " + bad[1]}
    return "ok", None


# ---- histories of stores in one process ------------------------------------

MODES = ("now", "lazy", "rs", "lazy_rs")


def run_hist_case(case):
    """Two stores of the SAME source into two distinct targets with equal
    contents, in every combination of {computed at once, lazy and kept, computed
    with return_stored and kept, lazy with return_stored}; the lazy ones are
    computed afterwards in either order.  Both targets must end up written."""
    import dask_array as da

    shape = tuple(case["shape"])
    a = np.arange(int(np.prod(shape))).reshape(shape) + 10.0
    x = da.from_array(a, chunks=tuple(tuple(c) for c in case["chunks"]))
    reg = _sl(case["region"])
    tshape = tuple(case["tshape"]) if reg is not None else shape
    tg = [_mk_target(case["target"], tshape) for _ in range(2)]
    desc = f"history on from_array{shape} chunks={case['chunks']} regions={reg}: store(x, t1, {case['modes'][0]}); store(x, t2, {case['modes'][1]}); lazy results computed in order {case['order']} ({case['target']} targets with equal contents)"
    kept = []
    try:
        for t, m in zip(tg, case["modes"]):
            r = da.store(x, t, regions=reg, lock=False, compute=m in ("now", "rs"), return_stored=m in ("rs", "lazy_rs"))
            kept.append(r)
        for i in case["order"]:
            if case["modes"][i].startswith("lazy"):
                dask.compute(kept[i], scheduler="sync")
        for i, m in enumerate(case["modes"]):
            if m == "rs":
                v = kept[i].compute(scheduler="sync")
                bad = E.compare(v, a, exact=True, dtype=False)
                if bad:
                    return None, {"kind": "hist-returned", "signature": f"hist-returned-{bad[0]}:{m}", "detail": desc + f"\n stored array #{i}: {bad[1]}"}
    except NotImplementedError:
        return "refused", None
    except Exception as e:  # noqa: BLE001
        return None, {"kind": "hist-raise", "signature": f"hist-raise:{E.exc_sig(e)}", "detail": desc + f" raised {type(e).__name__}: {str(e)[:200]}"}
    for i, t in enumerate(tg):
        f = _check_target(t, a, reg, tshape, desc, f"target t{i + 1}")
        if f:
            f["signature"] = "hist-" + f["signature"] + f":t{i + 1}"
            return None, f
    return "ok", None


def run_npy_case(case):
    import dask_array as da

    shape = tuple(case["shape"])
    a = np.arange(int(np.prod(shape))).reshape(shape) + 10.0
    x = da.from_array(a, chunks=tuple(tuple(c) for c in case["chunks"]))
    d = os.path.join(VERIF, ".scratch", f"c25-{os.getpid()}")
    shutil.rmtree(d, ignore_errors=True)
    os.makedirs(d)
    try:
        da.to_npy_stack(d, x, axis=case["axis"])
        y = da.from_npy_stack(d)
        val = y.compute(scheduler="sync")
        bad = E.compare(val, a, exact=True, dtype=True)
        if bad:
            return None, {"kind": "npy-" + bad[0], "signature": "npy-roundtrip-" + bad[0], "detail": f"to_npy_stack/from_npy_stack of {shape} chunks {case['chunks']} axis {case['axis']}: {bad[1]}"}
        if y.chunks[case["axis"]] != x.chunks[case["axis"]]:
            return None, {"kind": "npy-chunks", "signature": "npy-roundtrip-chunks", "detail": f"chunks along the stack axis {y.chunks} != {x.chunks}"}
    except NotImplementedError:
        return "refused", None
    except Exception as e:  # noqa: BLE001
        return None, {"kind": "npy-raise", "signature": f"npy-raise:{E.exc_sig(e)}", "detail": f"npy stack round trip raised {type(e).__name__}: {str(e)[:200]}"}
    finally:
        shutil.rmtree(d, ignore_errors=True)
    return "ok", None


def run_npy_hist_case(case):
    """Round trip, then ANOTHER array written to the same directory and read
    back, with the first reader kept alive / computed / dropped in between."""
    import dask_array as da

    shape = tuple(case["shape"])
    ax = case["axis"]
    a = np.arange(int(np.prod(shape))).reshape(shape) + 10.0
    x = da.from_array(a, chunks=tuple(tuple(c) for c in case["chunks"]))
    if case["second"] == "values":
        a2, ch2 = a * 3 + 1, x.chunks
    elif case["second"] == "chunks":
        a2 = a * 3 + 1
        ch2 = tuple((1,) * shape[i] if i == ax else c for i, c in enumerate(x.chunks))
    else:  # a longer array along the stack axis
        a2 = np.concatenate([a, a + 100], axis=ax)
        ch2 = tuple(c + c if i == ax else c for i, c in enumerate(x.chunks))
    x2 = da.from_array(a2, chunks=ch2)
    d = os.path.join(VERIF, ".scratch", f"c25h-{os.getpid()}")
    shutil.rmtree(d, ignore_errors=True)
    os.makedirs(d)
    desc = f"to_npy_stack(x{shape} chunks {case['chunks']}, axis={ax}); y = from_npy_stack [{case['first']}]; to_npy_stack(x2: {case['second']} differ) into the same directory; from_npy_stack"
    try:
        da.to_npy_stack(d, x, axis=ax)
        y = da.from_npy_stack(d)
        if case["first"] == "computed":
            y.compute(scheduler="sync")
        elif case["first"] == "dropped":
            del y
            gc.collect()
        da.to_npy_stack(d, x2, axis=ax)
        y2 = da.from_npy_stack(d)
        if y2.shape != a2.shape or y2.chunks[ax] != x2.chunks[ax]:
            return None, {"kind": "npy-hist-layout", "signature": f"npy-rewrite-layout:{case['first']}:{case['second']}", "detail": desc + f" advertises shape {y2.shape} chunks {y2.chunks}; written: shape {a2.shape} chunks along axis {x2.chunks[ax]}"}
        bad = E.compare(y2.compute(scheduler="sync"), a2, exact=True, dtype=True)
        if bad:
            return None, {"kind": "npy-hist-" + bad[0], "signature": f"npy-rewrite-{bad[0]}:{case['first']}:{case['second']}", "detail": desc + ": " + bad[1]}
    except NotImplementedError:
        return "refused", None
    except Exception as e:  # noqa: BLE001
        return None, {"kind": "npy-hist-raise", "signature": f"npy-rewrite-raise:{case['first']}:{case['second']}:{E.exc_sig(e)}", "detail": desc + f" raised {type(e).__name__}: {str(e)[:200]}"}
    finally:
        shutil.rmtree(d, ignore_errors=True)
    return "ok", None


def plan(tier, seed):
    shards = []
    shapes = [((6,), (12,)), ((3, 4), (6, 8))] if tier != "quick" else [((6,), (12,)), ((3, 4), (5, 7))]
    for shape, tshape in shapes:
        chs = list(itertools.product(*[compositions(n) for n in shape]))
        if tier == "quick":
            chs = chs[::3]
        for c in chs:
            shards.append({"shape": list(shape), "tshape": list(tshape), "chunks": [list(k) for k in c], "tier": tier})
    return {
        "shards": shards,
        "coverage": {
            "exhaustive": True,
            "bounds": {"shapes": [list(s) for s, _ in shapes], "target_shapes": [list(t) for _, t in shapes], "history_length": 2},
            "rule": "every chunking of the source x every region (contiguous at every offset that fits in a larger sentinel-filled target, strided with step 2 from 0 / from 1 and step 3, per axis; and regions=None) x lock in {True, False, a Lock} x compute in {True, False} x return_stored / load_stored x {one pair, two different sources with two different regions, the same source into two distinct equal-content targets} x {ndarray target, recording target}: every target[region] equals its source, the sentinel is untouched elsewhere, write requests stay inside the target, every returned/loaded array equals its source; histories of two stores of one source into two equal-content targets under every pair of modes {now, lazy, return_stored, lazy+return_stored} and either compute order; the npy-stack round trip for every chunking and axis, and its rewrite histories (first reader alive / computed / dropped x second array differing in values / chunks / length). Non-trivial = multi-block source with an offset region",
        },
        "assumptions": ["scratch directory under /verif/.scratch, removed after each case"],
    }


def run_shard(shard):
    out = ShardOut()
    shape, tshape = tuple(shard["shape"]), tuple(shard["tshape"])
    tier = shard.get("tier", "quick")
    regs = _regions(shape, tshape, tier)

    def tally(case, st, f, nontrivial):
        if st == "refused":
            out.count("refused")
            return
        out.count("accepted")
        if nontrivial:
            out.count("nontrivial")
        if f:
            f["case"] = case
            out.fail(f)

    multi = sum(len(c) for c in shard["chunks"]) > len(shape)
    for ri, region in enumerate(regs):
        region2 = None if region is None else regs[1 + (ri % (len(regs) - 1))]
        for lock in ("true", "false", "lock"):
            for compute, rs, ls in ((True, False, None), (False, False, None), (True, True, None), (False, True, None), (True, True, True), (False, True, False)):
                for pairs in ("1", "2diff", "2same"):
                    for target in ("np", "rec"):
                        if lock == "lock" and (pairs != "1" and target == "np" or tier == "quick" and region is not None and ri % 2):
                            continue
                        case = {"what": "store", "shape": list(shape), "tshape": list(tshape), "chunks": shard["chunks"], "region": region, "region2": region2, "lock": lock, "compute": compute, "return_stored": rs, "load_stored": ls, "pairs": pairs, "target": target}
                        out.count("evaluations")
                        out.count("transitions")
                        out.sadd("state_keys", hash(repr(case)))
                        st, f = run_case(case, out)
                        tally(case, st, f, region is not None and any(r[0] or r[2] > 1 for r in region) and multi)
                        if not f and not out.samples and region is not None:
                            out.sample(case)
    # histories
    hregs = [None, regs[len(regs) // 2]]
    for region in hregs:
        for modes in itertools.product(MODES, repeat=2):
            for order in ([0, 1], [1, 0]):
                if order == [1, 0] and not all(m.startswith("lazy") for m in modes):
                    continue
                for target in ("np", "rec"):
                    case = {"what": "hist", "shape": list(shape), "tshape": list(tshape), "chunks": shard["chunks"], "region": region, "modes": list(modes), "order": order, "target": target}
                    out.count("evaluations")
                    out.count("transitions", 2)
                    out.count("histories")
                    out.sadd("state_keys", hash(repr(case)))
                    st, f = run_hist_case(case)
                    tally(case, st, f, multi)
    for axis in range(len(shape)):
        case = {"what": "npy", "shape": list(shape), "chunks": shard["chunks"], "axis": axis}
        out.count("evaluations")
        out.count("transitions")
        st, f = run_npy_case(case)
        tally(case, st, f, False)
        if st != "refused":
            out.count("npy_roundtrips")
        for first in ("alive", "computed", "dropped"):
            for second in ("values", "chunks", "length"):
                case = {"what": "npyhist", "shape": list(shape), "chunks": shard["chunks"], "axis": axis, "first": first, "second": second}
                out.count("evaluations")
                out.count("transitions", 2)
                out.count("histories")
                out.sadd("state_keys", hash(repr(case)))
                st, f = run_npy_hist_case(case)
                tally(case, st, f, multi)
    return out.result()


def coverage(agg, plan):
    c = agg.counters
    return {"states": len(agg.sets.get("state_keys", ())), "transitions": c["transitions"], "traces_validated_against_impl": c["accepted"], "evaluations": c["evaluations"], "distinct_nontrivial": c["nontrivial"], "npy_roundtrips": c["npy_roundtrips"], "histories": c["histories"]}


def vacuity(agg, plan):
    c = agg.counters
    v = []
    if c["accepted"] < 2000:
        v.append(f"only {c['accepted']} accepted store cases")
    if c["npy_roundtrips"] < 10:
        v.append("too few npy-stack round trips")
    if c["histories"] < 200:
        v.append("too few store histories")
    return v


def replay(case):
    fn = {"npy": run_npy_case, "hist": run_hist_case, "npyhist": run_npy_hist_case}.get(case.get("what"), run_case)
    st, f = fn(case)
    return f
