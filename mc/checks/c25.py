"""C25 — store writes exactly the array into the requested target regions (E1, depth 1)."""

from __future__ import annotations

import itertools
import os
import shutil
import threading

import dask
import numpy as np

from mc import explorer as E
from mc.common import VERIF, ShardOut
from mc.domains import compositions

PROPERTY = "C25"
SENT = -777.0


class Target:
    """Array-like target that records every write."""

    def __init__(self, shape):
        self.a = np.full(shape, SENT)
        self.shape, self.dtype, self.ndim = self.a.shape, self.a.dtype, self.a.ndim
        self.writes = []

    def __setitem__(self, idx, val):
        self.writes.append(idx)
        self.a[idx] = val

    def __getitem__(self, idx):
        return self.a[idx]


def _regions(shape, tshape):
    """Every offset that fits (extent is the source's) + None."""
    per = []
    for n, t in zip(shape, tshape):
        per.append([slice(o, o + n) for o in range(0, t - n + 1)])
    return [None] + list(itertools.product(*per))


def run_case(case, out=None):
    import dask_array as da

    shape = tuple(case["shape"])
    a = np.arange(int(np.prod(shape))).reshape(shape) + 10.0
    x = da.from_array(a, chunks=tuple(tuple(c) for c in case["chunks"]))
    region = case["region"]
    reg = None if region is None else tuple(slice(*r) for r in region)
    tshape = tuple(case["tshape"]) if reg is not None else shape
    kind = case["target"]
    tgt = Target(tshape) if kind == "rec" else np.full(tshape, SENT)
    lock = {"true": True, "false": False, "lock": threading.Lock()}[case["lock"]]
    desc = f"store(from_array{shape} chunks={case['chunks']}, target{tshape}({kind}), regions={reg}, lock={case['lock']}, compute={case['compute']}, return_stored={case['return_stored']}, pairs={case['pairs']})"
    sources, targets, regions = x, tgt, reg
    tgt2 = None
    if case["pairs"] == 2:
        b = a * 2
        y = da.from_array(b, chunks=-1)
        tgt2 = Target(tshape) if kind == "rec" else np.full(tshape, SENT)
        sources, targets = [x, y], [tgt, tgt2]
        regions = None if reg is None else [reg, reg]
    try:
        res = da.store(sources, targets, lock=lock, regions=regions, compute=case["compute"], return_stored=case["return_stored"], **({"load_stored": case["load_stored"]} if case.get("load_stored") is not None else {}))
        if not case["compute"] and not case["return_stored"]:
            dask.compute(res, scheduler="sync")
        returned = None
        if case["return_stored"]:
            rs = list(res) if isinstance(res, (tuple, list)) else [res]
            # the stored arrays are lazy when compute=False: each one stores its
            # own target when computed
            if case.get("load_stored") is False and not case["compute"]:
                # blocks are the targets themselves: run the tasks, never assemble
                vals = [r.persist(scheduler="sync") for r in rs]
            else:
                vals = [r.compute(scheduler="sync") if hasattr(r, "compute") else r for r in rs]
            # load_stored=False with compute=False is documented as returning the
            # per-chunk targets ("directly computing this result is not what
            # you want"): only the targets are judged then
            if not (case.get("load_stored") is False and not case["compute"]):
                returned = vals[0]
    except NotImplementedError:
        return "refused", None
    except Exception as e:  # noqa: BLE001
        return None, {"kind": "raise", "signature": f"raise:{E.exc_sig(e)}", "detail": desc + f" raised {type(e).__name__}: {str(e)[:200]}"}

    def check(t, src, what):
        arr = t.a if isinstance(t, Target) else t
        exp = np.full(tshape, SENT)
        exp[reg if reg is not None else Ellipsis] = src
        if not np.array_equal(arr, exp):
            wrong_in = not np.array_equal(arr[reg if reg is not None else Ellipsis], src)
            return {"kind": "wrong-target", "signature": f"wrong-target:{'inside-region' if wrong_in else 'outside-region'}", "detail": desc + f"\n {what} is {arr.tolist()} expected {exp.tolist()}"}
        if isinstance(t, Target):
            for w in t.writes:
                tup = w if isinstance(w, tuple) else (w,)
                for ax, i in enumerate(tup):
                    if isinstance(i, slice) and any(v is not None and not (0 <= v <= tshape[ax]) for v in (i.start, i.stop)):
                        return {"kind": "write-out-of-bounds", "signature": "write-out-of-bounds", "detail": desc + f"\n write request {w} outside the target"}
        return None

    f = check(tgt, a, "target") or (check(tgt2, a * 2, "second target") if tgt2 is not None else None)
    if f:
        return None, f
    if returned is not None:
        bad = E.compare(returned, a, exact=True, dtype=False)
        if bad:
            return None, {"kind": "returned-" + bad[0], "signature": f"returned-{bad[0]}:compute={case['compute']},load_stored={case.get('load_stored')}", "detail": desc + "\n returned array: " + bad[1]}
    return "ok", None


def run_npy_case(case):
    import dask_array as da

    shape = tuple(case["shape"])
    a = np.arange(int(np.prod(shape))).reshape(shape) + 10.0
    x = da.from_array(a, chunks=tuple(tuple(c) for c in case["chunks"]))
    d = os.path.join(VERIF, ".scratch", f"c25-{os.getpid()}")
    shutil.rmtree(d, ignore_errors=True)
    os.makedirs(d)
    try:
        da.to_npy_stack(d, x, axis=case["axis"])
        y = da.from_npy_stack(d)
        val = y.compute(scheduler="sync")
        bad = E.compare(val, a, exact=True, dtype=True)
        if bad:
            return None, {"kind": "npy-" + bad[0], "signature": "npy-roundtrip-" + bad[0], "detail": f"to_npy_stack/from_npy_stack of {shape} chunks {case['chunks']} axis {case['axis']}: {bad[1]}"}
        if y.chunks[case["axis"]] != x.chunks[case["axis"]]:
            return None, {"kind": "npy-chunks", "signature": "npy-roundtrip-chunks", "detail": f"chunks along the stack axis {y.chunks} != {x.chunks}"}
    except NotImplementedError:
        return "refused", None
    except Exception as e:  # noqa: BLE001
        return None, {"kind": "npy-raise", "signature": f"npy-raise:{E.exc_sig(e)}", "detail": f"npy stack round trip raised {type(e).__name__}: {str(e)[:200]}"}
    finally:
        shutil.rmtree(d, ignore_errors=True)
    return "ok", None


def plan(tier, seed):
    shards = []
    shapes = [((6,), (9,)), ((3, 4), (5, 6))] if tier != "quick" else [((6,), (8,)), ((3, 4), (4, 5))]
    for shape, tshape in shapes:
        chs = list(itertools.product(*[compositions(n) for n in shape]))
        if tier == "quick":
            chs = chs[::3]
        for c in chs:
            shards.append({"shape": list(shape), "tshape": list(tshape), "chunks": [list(k) for k in c], "tier": tier})
    return {
        "shards": shards,
        "coverage": {
            "exhaustive": True,
            "bounds": {"shapes": [list(s) for s, _ in shapes], "target_shapes": [list(t) for _, t in shapes]},
            "rule": "every chunking of the source x every region offset that fits in a larger sentinel-filled target (and regions=None) x lock in {True, False, a Lock} x compute in {True, False} x return_stored / load_stored x 1 or 2 source/target pairs x {ndarray target, recording target}: target[region] equals the source everywhere, the sentinel is untouched elsewhere, write requests stay inside the target, returned/loaded arrays equal the source; plus the npy-stack round trip for every chunking and axis. Non-trivial = multi-block source with an offset region",
        },
        "assumptions": ["scratch directory under /verif/.scratch, removed after each case"],
    }


def run_shard(shard):
    out = ShardOut()
    shape, tshape = tuple(shard["shape"]), tuple(shard["tshape"])
    regs = _regions(shape, tshape)
    for reg in regs:
        region = None if reg is None else [[s.start, s.stop] for s in reg]
        for lock in ("true", "false", "lock"):
            for compute, rs, ls in ((True, False, None), (False, False, None), (True, True, None), (False, True, None), (True, True, True), (False, True, False)):
                for pairs in (1, 2):
                    for target in ("np", "rec"):
                        if target == "np" and lock == "lock" and pairs == 2:
                            continue
                        case = {"shape": list(shape), "tshape": list(tshape), "chunks": shard["chunks"], "region": region, "lock": lock, "compute": compute, "return_stored": rs, "load_stored": ls, "pairs": pairs, "target": target}
                        out.count("evaluations")
                        out.count("transitions")
                        out.sadd("state_keys", hash(repr(case)))
                        st, f = run_case(case, out)
                        if st == "refused":
                            out.count("refused")
                            continue
                        out.count("accepted")
                        if region is not None and any(r[0] for r in region) and sum(len(c) for c in shard["chunks"]) > len(shape):
                            out.count("nontrivial")
                        if f:
                            f["case"] = dict(case, what="store")
                            out.fail(f)
                        elif not out.samples and region is not None:
                            out.sample(case)
    for axis in range(len(shape)):
        case = {"what": "npy", "shape": list(shape), "chunks": shard["chunks"], "axis": axis}
        out.count("evaluations")
        out.count("transitions")
        st, f = run_npy_case(case)
        if st == "refused":
            out.count("refused")
            continue
        out.count("accepted")
        out.count("npy_roundtrips")
        if f:
            f["case"] = case
            out.fail(f)
    return out.result()


def coverage(agg, plan):
    c = agg.counters
    return {"states": len(agg.sets.get("state_keys", ())), "transitions": c["transitions"], "traces_validated_against_impl": c["accepted"], "evaluations": c["evaluations"], "distinct_nontrivial": c["nontrivial"], "npy_roundtrips": c["npy_roundtrips"]}


def vacuity(agg, plan):
    c = agg.counters
    v = []
    if c["accepted"] < 2000:
        v.append(f"only {c['accepted']} accepted store cases")
    if c["npy_roundtrips"] < 10:
        v.append("too few npy-stack round trips")
    return v


def replay(case):
    if case.get("what") == "npy":
        st, f = run_npy_case(case)
    else:
        st, f = run_case(case)
    return f
