"""C21 — the Frisky records path computes the same results as the dask graph (E1)."""

from __future__ import annotations

import numpy as np

from mc import e1check as X
from mc import explorer as E
from mc import graphx as G
from mc import ops as OPS


def _resolve(o, values):
    from dask._task_spec import TaskRef

    if isinstance(o, TaskRef):
        return values[str(o.key)]
    if isinstance(o, list):
        return [_resolve(x, values) for x in o]
    if isinstance(o, tuple):
        return tuple(_resolve(x, values) for x in o)
    if isinstance(o, dict):
        return {k: _resolve(v, values) for k, v in o.items()}
    return o


def _refs(o, acc):
    from dask._task_spec import TaskRef

    if isinstance(o, TaskRef):
        acc.add(str(o.key))
    elif isinstance(o, (list, tuple)):
        for x in o:
            _refs(x, acc)
    elif isinstance(o, dict):
        for x in o.values():
            _refs(x, acc)


def execute_records(records):
    """In-process executor over (key, func, args, kwargs, deps) records.
    Returns (values, error)."""
    by_key = {}
    for r in records:
        k = r[0]
        if k in by_key:
            o = by_key[k]
            # two layers may emit the same helper key (e.g. a shuffle's sorter);
            # like a dict merge this is harmless iff the tasks are the same
            if repr((o[1], o[2], o[3])) != repr((r[1], r[2], r[3])):
                return None, ("duplicate-key", f"key {k} is produced by two different records")
            continue
        by_key[k] = r
    # structure: every dep produced; declared deps cover the refs used
    for k, (key, func, args, kwargs, deps) in by_key.items():
        used = set()
        _refs(args, used)
        _refs(kwargs, used)
        deps = {str(d) for d in deps}
        for d in deps | used:
            if d not in by_key:
                return None, ("dangling-dep", f"record {k} depends on {d} which no record produces")
        if not used <= deps:
            return None, ("undeclared-dep", f"record {k} uses {sorted(used - deps)[:2]} not listed in its deps")
    values = {}
    state = {k: 0 for k in by_key}  # 0 new, 1 visiting, 2 done
    for root in by_key:
        stack = [(root, False)]
        while stack:
            k, expanded = stack.pop()
            if state[k] == 2:
                continue
            key, func, args, kwargs, deps = by_key[k]
            if not expanded:
                if state[k] == 1:
                    return None, ("cycle", f"dependency cycle through {k}")
                state[k] = 1
                stack.append((k, True))
                for d in deps:
                    if state[str(d)] != 2:
                        if state[str(d)] == 1:
                            return None, ("cycle", f"dependency cycle through {d}")
                        stack.append((str(d), False))
            else:
                values[k] = func(*_resolve(args, values), **_resolve(kwargs, values))
                state[k] = 2
    return values, None


def judge(y, ref, exact, check_dtype, out=None):
    # the dask graph side (reference for block values)
    try:
        dsk = G.fresh(y).__dask_graph__()
        keys = G.flat_keys(y.__dask_keys__())
        blocks = G.get_blocks(dsk, keys)
    except NotImplementedError:
        return ("refused", "", "")
    except Exception:
        if out is not None:
            out.count("dask_graph_fails_too")
        return None  # a defect of the dask path itself (C01/C04), not of the records path
    want = {str(k): v for k, v in zip(keys, blocks)}
    for api in ("__frisky_graph__", "__frisky_records_chunks__"):
        yy = G.fresh(y)
        try:
            res = getattr(yy, api)()
            okeys = yy.__frisky_output_keys__()
        except NotImplementedError:
            if out is not None:
                out.count("declined")
            continue
        except Exception as e:
            return ("records-raise", f"{api}:{E.exc_sig(e)}", f"{api}() raised {type(e).__name__}: {str(e)[:200]}")
        if api == "__frisky_records_chunks__":
            chunks, records, groups = res
            if chunks:
                if out is not None:
                    out.count("binary_chunks_present")
                continue  # native layer chunks cannot be executed here (C22)
        else:
            records = res
        if out is not None:
            out.count("record_graphs")
            out.count("records", len(records))
        if okeys != [str(k) for k in keys] and sorted(okeys) != sorted({str(k) for k in keys}):
            return ("output-keys", api, f"__frisky_output_keys__ {okeys[:3]} != stringified __dask_keys__ {[str(k) for k in keys][:3]}")
        try:
            values, err = execute_records(records)
        except Exception as e:
            return ("records-exec-raise", f"{api}:{E.exc_sig(e)}", f"executing the records raised {type(e).__name__}: {str(e)[:200]}")
        if err:
            return ("records-" + err[0], api, err[1])
        for k in okeys:
            if k not in values:
                return ("output-key-missing", api, f"output key {k} is not produced by any record")
            bad = E.compare(values[k], want[k], exact=True, dtype=True) if k in want else ("key", "unknown key")
            if bad:
                bad2 = E.compare(values[k], want[k], exact=False, dtype=True) if k in want else bad
                if bad2:
                    return ("records-value", api, f"block {k}: records give {E._short(values[k])}, dask graph gives {E._short(want.get(k))}")
    return None


def judge_group(ys, out):
    """Several collections walked with one shared ``seen`` set form a
    complete graph."""
    seen = set()
    records = []
    okeys = []
    members = []
    try:
        for y in ys:
            yy = G.fresh(y)
            members.append(yy)
            records += list(yy.__frisky_graph__(seen=seen))
            okeys += yy.__frisky_output_keys__()
    except NotImplementedError:
        out.count("group_declined")
        return None
    except Exception as e:
        return ("group-records-raise", E.exc_sig(e), f"{type(e).__name__}: {str(e)[:200]}")
    try:
        values, err = execute_records(records)
    except Exception as e:
        return ("group-exec-raise", E.exc_sig(e), f"{type(e).__name__}: {str(e)[:200]}")
    if err:
        return ("group-" + err[0], "", err[1])
    for y in ys:
        try:
            keys = G.flat_keys(y.__dask_keys__())
            blocks = G.get_blocks(G.fresh(y).__dask_graph__(), keys)
        except Exception:
            return None
        for k, b in zip(keys, blocks):
            if str(k) not in values:
                return ("group-output-missing", "", f"output key {k} missing from the union of records")
            if E.compare(values[str(k)], b, exact=False, dtype=True):
                return ("group-value", "", f"block {k} differs between the union of records and the dask graph")
    out.count("groups_checked")
    # history: the SAME objects, walked in a group before, are now asked alone:
    # each must again give a complete graph of its own
    for i, yy in enumerate(members):
        try:
            recs = list(yy.__frisky_graph__())
            vals, err = execute_records(recs)
        except NotImplementedError:
            continue
        except Exception as e:  # noqa: BLE001
            return ("alone-after-group-raise", E.exc_sig(e), f"member {i}: {type(e).__name__}: {str(e)[:200]}")
        if err:
            return ("alone-after-group-" + err[0], "", f"member {i} asked alone after a group walk: {err[1]}")
        for k in yy.__frisky_output_keys__():
            if k not in vals:
                return ("alone-after-group-output-missing", "", f"member {i} asked alone after a group walk: output key {k} not produced")
    return None


def _judge_with_groups(y, ref, exact, check_dtype, out=None):
    j = judge(y, ref, exact, check_dtype, out)
    return j


# layers that build cross-layer references with NumPy integer coordinates, and
# fused expressions reading one source at several sites under different block maps
_EXTRA = ["median0", "mb_dropaxis_sum", "bw_concat_sum", "apply_along0", "plus_ones_same", "mul_full_same", "diagonal", "diagonal_off1", "trace", "vindex_pts", "sq_plus_T", "where_gt_T", "sub_T_mul", "tdot", "outer", "dot_T", "einsum_sum", "einsum_all", "diag", "tril"]
# (a 6-block axis whose ragged block sits where the fused-blockwise fast path does not probe)
_SQUARE = [E.src((4, 4), ((2, 2), (1, 3))), E.src((11,), ((2, 2, 1, 2, 2, 2),))]

def _quick(seed):
    S = X.std_sources("quick")
    main = [S[1], S[7], S[10]]  # (6,) in (2,1,3); (3,4) in ((2,1),(1,3)); zero-size
    ops = OPS.REWRITE + OPS.subset(names=_EXTRA)
    extra = OPS.subset(names=_EXTRA + ["add1", "T", "sl_1_4", "sum0", "rc2", "tk_201", "cat_self"])
    shards = E.plan_shards(main, ops, 2)
    shards += E.plan_shards(_SQUARE, ops, 1)
    shards += E.plan_shards(_SQUARE, extra, 2)
    return shards, {"depth2": {"ops": len(ops), "sources": len(main)}, "square_and_ragged_sources": {"depth1_ops": len(ops), "depth2_ops": len(extra), "sources": len(_SQUARE)}}


_base = X.make(
    "C21", _judge_with_groups,
    quick=_quick, thorough=X.std_thorough(d3=False, sources=X.std_sources("quick") + _SQUARE),
    rule="every program of the E1 depth<=2 space: __frisky_graph__() and __frisky_records_chunks__() either decline with NotImplementedError (counted) or yield records with unique keys, every dependency produced and declared, no cycle, every __frisky_output_keys__() key produced, and an in-process record executor (resolving TaskRefs in nested list/tuple/dict arguments) computes block values equal to __dask_graph__()'s for every output key; plus groups of 2-3 collections sharing subtrees walked with one shared `seen` set. Non-trivial = multi-block program",
    assumptions=["without the native extension every node goes through the generic GraphRecordsLayer", "programs whose dask graph itself fails are judged by C01/C04, not here"],
    floors={"record_graphs": 2000},
)
globals().update(_base)
_monitor0 = _base["monitor"]


def monitor(ctx):
    fails = _monitor0(ctx)
    if fails or len(ctx.dpool) < 3:
        return fails
    # group: the newest node with its parent and the source, one shared `seen`
    j = judge_group([ctx.dpool[-1], ctx.dpool[-2], ctx.dpool[0]], ctx.out)
    if j:
        kind, tag, msg = j
        return [{"kind": kind, "signature": f"{kind}:{tag + ':' if tag else ''}{E.op_path(ctx.case)}", "detail": msg}]
    return []


def run_shard(shard):
    return E.Explorer(shard, monitor).run().result()


def replay(case):
    return E.replay_program(case, monitor)
