"""C05 — every compute/persist/optimize entry point agrees (E1 + E4)."""

from __future__ import annotations

import dask
import numpy as np

from mc import e1check as X
from mc import explorer as E
from mc import graphx as G
from mc import ops as OPS

FOLLOW = ["add1", "sl_1_4", "sl_rev", "sum0", "T", "rc2", "mean", "ix_m1", "cat_self", "exp0", "tk_m1_0", "cumsum0"]


def _to_delayed_value(x):
    d = x.to_delayed()
    flat = np.asarray(d, dtype=object).ravel().tolist()
    vals = dask.compute(*flat, scheduler="sync")
    if x.ndim == 0:
        return vals[0]
    arr = np.empty(len(vals), dtype=object)
    for i, v in enumerate(vals):
        arr[i] = v
    return G.assemble(arr.reshape(x.numblocks).tolist())


def judge(y, ref, exact, check_dtype, out=None):
    name0, chunks0, dtype0, keys0 = y.name, y.chunks, y.dtype, y.__dask_keys__()
    sib = y * 2 if y.dtype.kind in "fiuc" else ~y if y.dtype.kind == "b" else y
    with np.errstate(all="ignore"):
        sib_ref = ref * 2 if y.dtype.kind in "fiuc" else ~np.asarray(ref) if y.dtype.kind == "b" else ref

    def fresh():
        return G.fresh(y)

    # entry points with recorded findings (dask.persist on window reductions,
    # dask.optimize) come last so that a failure there never hides the others
    entries = [
        ("x.compute", lambda: (fresh().compute(scheduler="sync"), None)),
        ("dask.compute", lambda: (dask.compute(fresh(), scheduler="sync")[0], None)),
        ("dask.compute-with-sibling", lambda: (dask.compute(fresh(), sib, scheduler="sync"), "pair")),
        ("x.persist", lambda: (fresh().persist(scheduler="sync"), "coll")),
        ("x.optimize", lambda: (fresh().optimize(), "coll-anyname")),
        ("to_delayed", lambda: (_to_delayed_value(fresh()), None)),
        # (np.asarray of a masked result returns the data without the mask, in
        # NumPy too: not an entry point for masked programs)
        ("np.asarray", lambda: (np.asarray(fresh()) if not isinstance(ref, np.ma.MaskedArray) else fresh().compute(scheduler="sync"), None)),
        ("dask.persist", lambda: (dask.persist(fresh(), scheduler="sync")[0], "coll")),
        ("dask.persist-with-sibling", lambda: (dask.persist(fresh(), sib, scheduler="sync")[0], "coll")),
        ("dask.optimize", lambda: (dask.optimize(fresh())[0], "coll")),
    ]
    # the reference entry point first: if plain compute refuses, nothing to compare
    try:
        base = fresh().compute(scheduler="sync")
    except NotImplementedError:
        return ("refused", "", "")
    except Exception as e:
        return ("compute-raise", E.exc_sig(e), f"compute() raised {type(e).__name__}: {str(e)[:200]}")
    bad = E.compare(base, ref, exact=exact, dtype=check_dtype)
    if bad:
        return (bad[0], "x.compute", bad[1])
    for ename, fn in entries:
        if out is not None:
            out.count("entry_point_runs")
        try:
            res, kind = fn()
        except NotImplementedError:
            continue
        except Exception as e:
            return ("entry-raise", f"{ename}:{E.exc_sig(e)}", f"{ename} raised {type(e).__name__}: {str(e)[:200]} while x.compute() succeeds")
        try:
            if kind == "pair":
                a, b = res
                bad = E.compare(a, ref, exact=exact, dtype=check_dtype) or E.compare(b, sib_ref, exact=exact, dtype=False)
                if bad:
                    return ("entry-" + bad[0], ename, f"{ename}: {bad[1]}")
                continue
            if kind in ("coll", "coll-anyname"):
                c = res
                if kind == "coll" and (c.name != name0 or c.__dask_keys__() != keys0):
                    return ("identity-changed", ename, f"{ename} returned a collection named {c.name}, x is {name0}")
                # (the property promises name/chunks/dtype for persisted and
                # dask-optimized collections; x.optimize() only promises values)
                if kind == "coll" and c.chunks != chunks0 and not any(isinstance(s, float) and s != s for dim in chunks0 for s in dim):
                    return ("identity-changed", ename + ":chunks", f"{ename} returned chunks {c.chunks}, x has {chunks0}")
                if c.dtype != dtype0:
                    return ("identity-changed", ename + ":dtype", f"{ename} returned dtype {c.dtype}, x has {dtype0}")
                val = c.compute(scheduler="sync")
                bad = E.compare(val, ref, exact=exact, dtype=check_dtype)
                if bad:
                    return ("entry-" + bad[0], ename, f"{ename}(x).compute(): {bad[1]}")
                # follow-on operations on the returned collection (not on masked
                # results: NumPy's own functions treat masks ad hoc, e.g.
                # np.concatenate drops them, so there is no reference)
                for fname in FOLLOW if not isinstance(ref, np.ma.MaskedArray) else ():
                    op = OPS.BY_NAME[fname]
                    if not op.applies(np.asarray(ref)):
                        continue
                    try:
                        with np.errstate(all="ignore"):
                            fref = op.numpy(ref)
                    except Exception:
                        continue
                    try:
                        import dask_array as da

                        fval = op.dask(da, c).compute(scheduler="sync")
                    except NotImplementedError:
                        continue
                    except Exception as e:
                        # only a violation if the same follow-on works on x itself
                        try:
                            import dask_array as da

                            op.dask(da, fresh()).compute(scheduler="sync")
                        except Exception:
                            continue
                        return ("follow-on-raise", f"{ename}:{fname}:{E.exc_sig(e)}", f"{fname} applied to the result of {ename} raised {type(e).__name__}: {str(e)[:160]} but works on x")
                    if out is not None:
                        out.count("follow_on_runs")
                    bad = E.compare(fval, fref, exact=exact and op.exact, dtype=False)
                    if bad:
                        return ("follow-on-" + bad[0], f"{ename}:{fname}", f"{fname} applied to the result of {ename}: {bad[1]}")
                continue
            bad = E.compare(res, ref, exact=exact, dtype=check_dtype)
            if bad:
                return ("entry-" + bad[0], ename, f"{ename}: {bad[1]}")
        except NotImplementedError:
            continue
        except Exception as e:
            return ("entry-raise", f"{ename}:{E.exc_sig(e)}", f"using the result of {ename} raised {type(e).__name__}: {str(e)[:200]}")
    return _after_update(y, ref, out)


def _after_update(y, ref, out):
    """History: the collection's keys / delayed blocks / graph were handed out,
    THEN it is updated in place; every entry point must follow the update."""
    ref = np.asarray(ref)
    if ref.ndim < 1 or ref.shape[0] < 2 or y.dtype.kind != "f" or any(isinstance(s, float) and s != s for dim in y.chunks for s in dim):
        return None
    for uname, upd in (("setitem", lambda z: z.__setitem__(slice(1, None), -1.0)), ("iadd", lambda z: z.__iadd__(3.0))):
        z = G.fresh(y)
        try:
            z.__dask_keys__(), z.to_delayed(), z.__dask_graph__()
            z2 = upd(z)
            z = z if z2 is None else z2
        except Exception:  # noqa: BLE001  (an update that is refused is judged by C11)
            continue
        r2 = np.array(ref, copy=True)
        if uname == "setitem":
            r2[1:] = -1.0
        else:
            r2 += 3.0
        for ename, fn in (
            ("x.compute", lambda: z.compute(scheduler="sync")),
            ("to_delayed", lambda: _to_delayed_value(z)),
            ("graph+keys", lambda: G.assemble(G.get_blocks(dict(z.__dask_graph__()), z.__dask_keys__())) if z.ndim else None),
            ("x.persist", lambda: z.persist(scheduler="sync").compute(scheduler="sync")),
        ):
            if out is not None:
                out.count("entry_point_runs_after_update")
            try:
                val = fn()
            except NotImplementedError:
                continue
            except Exception as e:  # noqa: BLE001
                return ("entry-raise-after-update", f"{uname}:{ename}:{type(e).__name__}", f"after handing out keys/graph and then updating in place ({uname}), {ename} raised {type(e).__name__}: {str(e)[:200]}")
            if val is None:
                continue
            bad = E.compare(val, r2, exact=False, dtype=False)
            if bad:
                return ("entry-after-update-" + bad[0], f"{uname}:{ename}", f"after handing out keys/graph and then updating in place ({uname}), {ename}: {bad[1]}")
    return None


def _quick(seed):
    S = X.std_sources("quick")[:8]
    shards = E.plan_shards(S, OPS.REWRITE, 1)
    # layout-changing pairs (a rewrite that moves block boundaries but keeps the
    # block count only shows at depth 2 on these small axes)
    d2 = OPS.subset(names=["rc2", "rc3", "diff", "diff2", "swv2_sum", "swv2_mean", "swv3_max", "sl_rev", "sl_1_4", "cumsum0"])
    shards += E.plan_shards(S[:5], d2, 2, binary=False)
    return shards, {"depth": 1, "ops": len(OPS.REWRITE), "sources": len(S), "depth2_layout_pairs": {"ops": len(d2), "sources": 5}, "entry_points": 10, "follow_on_ops": len(FOLLOW)}


def _thorough(seed):
    S = X.std_sources("thorough")[::4][:20]
    shards = E.plan_shards(S, OPS.ALL, 1)
    d2 = OPS.subset(names=X.D3_OPS)
    shards += E.plan_shards(S[::3][:6], d2, 2, binary=False)
    return shards, {"depth1": {"ops": len(OPS.ALL), "sources": len(S)}, "depth2": {"ops": len(d2), "sources": 6}, "entry_points": 10, "follow_on_ops": len(FOLLOW)}


_m = X.make(
    "C05", judge,
    quick=_quick, thorough=_thorough,
    rule="for every program (root of every expression class reachable at the depth bound): x.compute(), dask.compute(x), dask.compute(x, sibling sharing x's subtree), x.persist(), dask.persist(x), dask.persist(x, sibling), dask.optimize(x), x.optimize(), x.to_delayed() assembled block-wise and np.asarray(x) all equal NumPy; persisted / dask-optimized collections keep name, keys, chunks, dtype; and each of 12 follow-on ops applied to every returned collection equals NumPy (history of length 2). Non-trivial = multi-block program",
    assumptions=["after the entry points, the history 'keys/to_delayed/graph handed out, then x[1:] = -1 / x += 3' is replayed on a fresh collection and compute / to_delayed / graph+keys / persist must all see the update", "synchronous scheduler", "a follow-on op that also fails on x itself is not attributed to the entry point"],
    floors={"entry_point_runs": 5000, "follow_on_runs": 5000},
)
globals().update(_m)
