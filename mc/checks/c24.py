"""C24 — source reads return exactly the requested elements (E1)."""

from __future__ import annotations

import itertools
import threading
from numbers import Integral

import numpy as np

from mc import explorer as E
from mc.common import ShardOut
from mc.domains import compositions

PROPERTY = "C24"


class Rec:
    """Recording array-like: logs every __getitem__ request."""

    def __init__(self, a, storage=None):
        self.a = a
        self.shape, self.dtype, self.ndim = a.shape, a.dtype, a.ndim
        self.log = []
        self.arr_calls = 0
        if storage is not None:
            self.chunks = storage  # storage grid as zarr/h5py expose it

    def __getitem__(self, idx):
        self.log.append(idx)
        return self.a[idx]

    def __array__(self, dtype=None, copy=None):
        self.arr_calls += 1
        return np.asarray(self.a, dtype=dtype)

    def __len__(self):
        return self.shape[0]


def custom_getter(a, idx, asarray=True, lock=None):
    # a user-supplied getitem= function
    if lock:
        lock.acquire()
    try:
        r = a[idx]
        return np.asarray(r) if asarray else r
    finally:
        if lock:
            lock.release()


STEPS_1D = {
    "s_1_": "{x}[1:]", "s__4": "{x}[:4]", "s_2_5": "{x}[2:5]", "s_0_0": "{x}[0:0]", "s_m2": "{x}[-2:]", "s_step2": "{x}[::2]", "s_rev": "{x}[::-1]", "s_3_": "{x}[3:]",
    "i_0": "{x}[0]", "i_m1": "{x}[-1]", "i_2": "{x}[2]", "l_20": "{x}[[2, 0]]",
    "rc2": "{x}.rechunk(2)", "rc3": "{x}.rechunk(3)", "rc_all": "{x}.rechunk(-1)", "rc1": "{x}.rechunk(1)", "rc_4_2": "{x}.rechunk(((4, 2),))",
    "add": "({x} + 1)", "neg": "(-{x})",
}
STEPS_2D = {
    "s_1_": "{x}[1:]", "s_c": "{x}[:, 2:6]", "s_b": "{x}[1:5, 3:]", "s_0": "{x}[2:2]", "s_m": "{x}[-3:, :-2]", "s_step": "{x}[::2, 1::3]", "s_rev": "{x}[::-1]",
    "i_r": "{x}[2]", "i_c": "{x}[:, -1]", "i_rc": "{x}[1, 3]", "l_c": "{x}[:, [3, 0]]",
    "rc_24": "{x}.rechunk((2, 4))", "rc_43": "{x}.rechunk((4, 3))", "rc_all": "{x}.rechunk(-1)", "rc_31": "{x}.rechunk((3, 1))", "rc_d1": "{x}.rechunk({{1: 8}})",
    "add": "({x} + 1)", "T": "{x}.T",
}


def _np_expr(t):
    import re

    t = re.sub(r"\.rechunk\([^)]*\)\)?", lambda m: ")" if m.group(0).endswith("))") and m.group(0).count("(") < m.group(0).count(")") else "", t)
    return t


def _sources(tier):
    out = []
    # (shape, storage grid or None)
    for shape, grids in (((6,), [None, (3,), (4,)]), ((6, 8), [None, (2, 4), (4, 3)])):
        for g in grids:
            for opt in ({"lock": False}, {"lock": True}, {"fancy": False}, {"getitem": "custom"}, {"inline_array": True}, {"asarray": False}) if tier != "quick" else ({"lock": False}, {"lock": True, "fancy": False}, {"getitem": "custom", "inline_array": True}):
                out.append({"kind": "rec", "shape": shape, "storage": g, "opts": opt})
        # NumPy sources: the eager-copy threshold is an environment answer. 0 keeps
        # every slice a deferred region; intermediate values make a first slice
        # deferred and a later, narrower one eager (copy taken from a source
        # that already carries a region); the default copies at once.
        nbytes = int(np.prod(shape)) * 8
        for lim in (0, nbytes // 2, (nbytes * 3) // 4, None):
            out.append({"kind": "ndarray", "shape": shape, "storage": None, "opts": {} if lim == 0 else {"eager_limit": lim if lim is not None else 64 * 1024 * 1024}})
    return out


def _req_chunkings(shape, tier):
    if len(shape) == 1:
        cs = [(c,) for c in compositions(shape[0])]
        return cs if tier != "quick" else cs[::4]
    return [((6,), (8,)), ((2, 4), (4, 4)), ((3, 3), (3, 5)), ((1, 5), (8,)), ((2, 2, 2), (2, 6))] if tier == "quick" else [((6,), (8,)), ((2, 4), (4, 4)), ((3, 3), (3, 5)), ((1, 5), (8,)), ((2, 2, 2), (2, 6)), ((4, 2), (3, 3, 2)), ((6,), (4, 4)), ((1, 1, 4), (1, 7))]


def _check_requests(rec, fancy):
    """Every logged request within bounds, non-fancy when fancy=False."""
    for idx in rec.log:
        tup = idx if isinstance(idx, tuple) else (idx,)
        if len(tup) > rec.ndim:
            return f"request {idx!r} has more entries than the source has axes"
        for ax, i in enumerate(tup):
            dim = rec.shape[ax]
            if isinstance(i, slice):
                vals = (i.start, i.stop)
                if any(v is not None and not (0 <= v <= dim) for v in vals):
                    return f"request {idx!r}: slice {i} on axis {ax} outside [0, {dim}] (negative or past the end)"
                if i.start is not None and i.stop is not None and i.start > i.stop and (i.step is None or i.step > 0):
                    return f"request {idx!r}: slice {i} has start > stop"
            elif isinstance(i, Integral):
                if not (0 <= i < dim):
                    return f"request {idx!r}: integer {i} on axis {ax} outside [0, {dim})"
            elif isinstance(i, (list, np.ndarray)):
                if not fancy:
                    return f"request {idx!r} uses fancy indexing although fancy=False"
                arr = np.asarray(i)
                if arr.dtype != bool and arr.size and (arr.min() < 0 or arr.max() >= dim):
                    return f"request {idx!r}: list entries outside [0, {dim})"
            elif i is None or i is Ellipsis:
                continue
            else:
                return f"request {idx!r}: unexpected index object {type(i).__name__}"
    return None


def run_case(case, out=None):
    import dask_array as da
    import dask_array.io._from_array as fa

    shape = tuple(case["shape"])
    a = (np.arange(int(np.prod(shape))).reshape(shape) + 10.0)
    opts = dict(case["opts"])
    fancy = opts.get("fancy", True)
    lock = opts.get("lock", False)
    old_limit = fa._NUMPY_SLICE_PUSHDOWN_NBYTES_LIMIT
    try:
        if case["kind"] == "ndarray":
            # force the deferred-region path for small ndarrays too
            fa._NUMPY_SLICE_PUSHDOWN_NBYTES_LIMIT = opts.get("eager_limit", 0)
            src = a.copy()
            rec = None
        else:
            rec = Rec(a.copy(), tuple(case["storage"]) if case["storage"] else None)
            src = rec
        kw = {}
        if lock:
            kw["lock"] = threading.Lock() if case.get("own_lock") else True
        if "fancy" in opts:
            kw["fancy"] = opts["fancy"]
        if opts.get("getitem") == "custom":
            kw["getitem"] = custom_getter
        if opts.get("inline_array"):
            kw["inline_array"] = True
        if "asarray" in opts:
            kw["asarray"] = opts["asarray"]
        desc = f"from_array({case['kind']}{shape} storage={case['storage']}, chunks={case['chunks']}, {kw if not lock else dict(kw, lock='Lock')}) ; " + " ; ".join(case["steps"])
        try:
            x = da.from_array(src, chunks=tuple(tuple(c) for c in case["chunks"]), **kw)
        except Exception as e:  # noqa: BLE001
            return "refused", None
        n_after_build = len(rec.log) if rec else 0
        y, ref = x, a
        table = STEPS_1D if len(shape) == 1 else STEPS_2D
        env = {"da": da, "np": np}
        for st in case["steps"]:
            t = table[st]
            try:
                with np.errstate(all="ignore"):
                    if ".rechunk" in t:
                        nref = ref
                    else:
                        nref = eval(t.format(x="r"), dict(env, r=ref))
            except Exception:
                return "invalid", None
            try:
                y = eval(t.format(x="y"), dict(env, y=y))
            except NotImplementedError:
                return "refused", None
            except (IndexError, ValueError) as e:
                return "refused", None
            ref = nref
        if rec is not None:
            rec.log.clear()
        try:
            val = y.compute(scheduler="sync")
        except NotImplementedError:
            return "refused", None
        except Exception as e:  # noqa: BLE001
            return None, {"kind": "compute-raise", "signature": f"compute-raise:{E.exc_sig(e)}:{'>'.join(case['steps'])}", "detail": desc + f"\n compute raised {type(e).__name__}: {str(e)[:200]}"}
        bad = E.compare(val, ref, exact=True, dtype=False)
        if bad:
            return None, {"kind": bad[0], "signature": f"{bad[0]}:{case['kind']}:{'>'.join(case['steps'])}", "detail": desc + "\n " + bad[1]}
        absorbed = False
        try:
            opt = y.expr.optimize()
            leaves = [n for n in opt.walk() if type(n).__name__ == "FromArray"]
            absorbed = any(n.operand("_region") is not None or tuple(n.chunks) != tuple(x.chunks) for n in leaves)
        except Exception:
            pass
        if rec is not None:
            err = _check_requests(rec, fancy)
            if err:
                return None, {"kind": "bad-request", "signature": f"bad-request:{'>'.join(s.split('_')[0] for s in case['steps'])}", "detail": desc + "\n " + err + f"\n log={rec.log[:6]}"}
            if out is not None:
                out.count("requests_checked", len(rec.log))
        if out is not None and absorbed:
            out.count("nontrivial")
        return "ok", None
    finally:
        fa._NUMPY_SLICE_PUSHDOWN_NBYTES_LIMIT = old_limit


def plan(tier, seed):
    shards = []
    for s in _sources(tier):
        for ch in _req_chunkings(s["shape"], tier):
            shards.append({"src": s, "chunks": [list(c) for c in ch], "tier": tier})
    return {
        "shards": shards,
        "coverage": {
            "exhaustive": True,
            "bounds": {"sources": len(_sources(tier)), "chain_length": 3, "steps_1d": len(STEPS_1D), "steps_2d": len(STEPS_2D)},
            "rule": "for every source (recording array-like with storage grid none/(3,)/(4,) resp. none/(2,4)/(4,3), lock on/off, fancy on/off, custom getitem, inline_array, asarray=False; and plain ndarrays under four values of the eager-copy threshold _NUMPY_SLICE_PUSHDOWN_NBYTES_LIMIT: 0 (always a deferred region), half / three quarters of the array (a first slice deferred, a narrower later one copied eagerly), default) x every requested chunking x every chain of <= 3 steps from {slices of every boundary class, int index, list index, rechunk aligned/misaligned/sub-storage, elemwise, transpose}: result equals NumPy indexing of the source, and every logged read request is within the source's bounds (0 <= start <= stop <= dim, ints in range, no negative wrap) and non-fancy when fancy=False. Non-trivial = a slice or rechunk was absorbed into the read (region set or leaf chunks changed in the optimized tree)",
        },
        "assumptions": ["the recording array-like stands in for zarr/h5py/tiledb stores (not installed)", "requests are checked on the synchronous scheduler"],
    }


def run_shard(shard):
    out = ShardOut()
    s = shard["src"]
    table = STEPS_1D if len(s["shape"]) == 1 else STEPS_2D
    names = list(table)
    depth = 3
    if shard["tier"] == "quick":
        names2 = names
        chains = [()] + [(a,) for a in names] + [(a, b) for a in names for b in names] + [(a, b, c) for a in names[::2] for b in names[1::3] for c in names[::4]]
    else:
        chains = [()] + [(a,) for a in names] + [(a, b) for a in names for b in names] + [(a, b, c) for a in names for b in names for c in names[::2]]
    for ch in chains:
        case = {"kind": s["kind"], "shape": list(s["shape"]), "storage": list(s["storage"]) if s["storage"] else None, "opts": s["opts"], "chunks": shard["chunks"], "steps": list(ch)}
        out.count("evaluations")
        out.count("transitions", max(1, len(ch)))
        out.sadd("state_keys", hash(repr(case)))
        st, f = run_case(case, out)
        if st in ("refused", "invalid"):
            out.count(st)
            continue
        out.count("accepted")
        if f:
            f["case"] = case
            out.fail(f)
        elif len(ch) == 3 and not out.samples:
            out.sample(case)
    return out.result()


def coverage(agg, plan):
    c = agg.counters
    return {"states": len(agg.sets.get("state_keys", ())), "transitions": c["transitions"], "traces_validated_against_impl": c["accepted"], "evaluations": c["evaluations"], "distinct_nontrivial": c["nontrivial"], "requests_checked": c["requests_checked"]}


def vacuity(agg, plan):
    c = agg.counters
    v = []
    if c["nontrivial"] < 500:
        v.append(f"only {c['nontrivial']} programs where a slice/rechunk was absorbed into the read")
    if c["requests_checked"] < 5000:
        v.append("too few read requests observed")
    return v


def replay(case):
    st, f = run_case(case)
    return f
