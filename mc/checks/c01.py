"""C01 — programs compute what NumPy computes (E1)."""
from mc import e1check as X
from mc import monitors as M

_m = X.make(
    "C01", M.judge_c01,
    quick=X.std_quick(), thorough=X.std_thorough(),
    rule="all programs (ancestry DAGs) up to the depth bound over the op alphabet from every listed source; a state is distinct by structural hash of its raw expression tree; non-trivial = some node of the program has > 1 block and the program has >= 1 op",
    assumptions=["NumPy evaluation of the same op sequence is the reference model", "small scope: axis length <= 6, rank <= 3, depth <= 2 (3 on the compact alphabet)", "synchronous scheduler"],
    floors={"evaluations": 1000},
)
globals().update(_m)
