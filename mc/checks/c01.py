"""C01 — programs compute what NumPy computes (E1)."""

from __future__ import annotations

import numpy as np

from mc import explorer as E
from mc import ops as OPS

PROPERTY = "C01"


def _blocks(y):
    try:
        return int(np.prod(y.numblocks)) if y.numblocks else 1
    except Exception:
        return 1


def _judge(y, ref, exact, check_dtype):
    """(kind, tag, message) or None for one collection against its NumPy value."""
    try:
        val = y.compute(scheduler="sync")
    except NotImplementedError:
        return ("refused", "", "")
    except Exception as e:
        return ("compute-raise", E.exc_sig(e), f"NumPy gives {E._short(ref)} but compute() raised {type(e).__name__}: {str(e)[:300]}")
    if tuple(y.shape) != np.shape(ref) and not any(s != s for s in y.shape):
        return ("meta-shape", "", f"advertised shape {y.shape} != numpy {np.shape(ref)}")
    bad = E.compare(val, ref, exact=exact, dtype=check_dtype)
    if bad:
        return (bad[0], "", bad[1])
    return None


def monitor(ctx):
    y, ref = ctx.y, ctx.ref
    out = ctx.out
    out.count("evaluations")
    multi = any(_blocks(d) > 1 for d in ctx.dpool)
    if multi and ctx.case["steps"]:
        out.count("nontrivial")
    exact, cd = ctx.exact, ctx.check_dtype
    j = _judge(y, ref, exact, cd)
    if j is None:
        out.dcount("outcome_shapes", str(np.shape(ref)))
        return []
    kind, tag, msg = j
    if kind == "refused":
        # a lazily raised NotImplementedError (e.g. dtype inference of an
        # unsupported elemwise) is a loud refusal, not wrong data
        out.count("refused_at_compute")
        out.dcount("refused_by_type", "NotImplementedError@compute:" + E.op_path(ctx.case).split(">")[-1])
        return []

    def again(y2, ref2):
        j2 = _judge(y2, ref2, exact, cd)
        return j2 is not None and j2[0] == kind and j2[1] == tag

    path = E.minimal_path(ctx, again)
    sig = f"{kind}:{tag + ':' if tag else ''}{path}"
    return [{"kind": kind, "signature": sig, "detail": msg}]


def sources(tier):
    from mc.domains import compositions

    S = []
    if tier == "quick":
        for c in [(6,), (2, 1, 3), (1, 1, 1, 1, 1, 1), (4, 2), (3, 3)]:
            S.append(E.src((6,), (c,)))
        for c0, c1 in [((3,), (4,)), ((1, 2), (2, 2)), ((2, 1), (1, 3)), ((1, 1, 1), (3, 1))]:
            S.append(E.src((3, 4), (c0, c1)))
        S.append(E.src((1,), ((1,),)))
        S.append(E.src((0,), ((0,),)))
        S.append(E.src((2, 3, 2), ((1, 1), (2, 1), (2,))))
        S.append(E.src((6,), ((2, 2, 2),), "i8"))
    else:
        S += E.sources_1d(6)
        S += E.sources_2d((3, 4))
        for shp, ch in [((0,), ((0,),)), ((1,), ((1,),)), ((0, 3), ((0,), (1, 2))), ((1, 4), ((1,), (2, 2))), ((2, 3, 2), ((1, 1), (2, 1), (2,))), ((2, 3, 2), ((2,), (1, 1, 1), (1, 1))), ((4, 4), ((2, 2), (1, 3)))]:
            S.append(E.src(shp, ch))
        for c in [(6,), (2, 1, 3), (3, 3), (1, 2, 2, 1)]:
            S.append(E.src((6,), (c,), "i8"))
        S.append(E.src((3, 4), ((1, 2), (2, 2)), "i8"))
        S.append(E.src((6,), ((2, 2, 2),), "c16"))
        S.append(E.src((6,), ((2, 1, 3),), "f4"))
        S.append(E.src((6,), ((3, 3),), "bool"))
    return S


def plan(tier, seed):
    S = sources(tier)
    if tier == "quick":
        ops = OPS.REWRITE
        shards = E.plan_shards(S, ops, 2)
        bounds = {"depth": 2, "alphabet": "rewrite-active", "ops": len(ops), "sources": len(S)}
    else:
        shards = E.plan_shards(S, OPS.ALL, 2)
        # depth 3 over a compact rewrite-active alphabet on a subset of sources
        d3 = OPS.subset(names=D3_OPS)
        S3 = [s for i, s in enumerate(S) if i % 6 == 0][:16]
        shards += E.plan_shards(S3, d3, 3, binary=False)
        bounds = {"depth2": {"ops": len(OPS.ALL), "sources": len(S)}, "depth3": {"ops": len(d3), "sources": len(S3), "binary": False}}
    return {
        "shards": shards,
        "coverage": {"bounds": bounds, "exhaustive": True, "rule": "all programs (ancestry DAGs) up to the depth bound over the op alphabet from every listed source; a state is distinct by structural hash of its raw expression tree; non-trivial = some node of the program has > 1 block and the program has >= 1 op"},
        "assumptions": ["NumPy evaluation of the same op sequence is the reference model", "small scope: axis length <= 6, rank <= 3, depth <= 2 (3 on the compact alphabet)", "synchronous scheduler"],
    }


D3_OPS = [
    "sl_1_4", "sl_s2", "sl_rev", "ix_1", "sl2_a", "tk_201", "add1", "add_row", "T", "rs_m1", "exp0", "flip0",
    "cat_parts", "stack0", "rc2", "rc_all", "rc3", "sum0", "mean_se2", "argmax0", "cumsum0", "swv2_sum", "swv3_max", "diff", "mb_double", "bcast",
]


def run_shard(shard):
    ex = E.Explorer(shard, monitor)
    return ex.run().result()


def coverage(agg, plan):
    c = agg.counters
    return {
        "states": len(agg.sets.get("state_keys", ())),
        "transitions": c["transitions"],
        "traces_validated_against_impl": c["evaluations"],
        "evaluations": c["evaluations"],
        "distinct_nontrivial": c["nontrivial"],
        "distinct_outcomes": len(agg.dicts.get("outcome_shapes", {})),
    }


def vacuity(agg, plan):
    c = agg.counters
    v = []
    if c["evaluations"] < 1000:
        v.append(f"only {c['evaluations']} programs evaluated")
    if c["nontrivial"] < c["evaluations"] // 4:
        v.append("fewer than a quarter of programs have a multi-block node")
    if len(agg.dicts.get("outcome_shapes", {})) < 5:
        v.append("fewer than 5 distinct outcome shapes")
    return v


def replay(case):
    return E.replay_program(case, monitor)
