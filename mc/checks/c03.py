"""C03 — advertised shape/dtype/chunks are what the graph produces (E1)."""
from mc import e1check as X
from mc import monitors as M
from mc import ops as OPS

_LAYOUT = [o for o in OPS.REWRITE if o.fam in ("slice", "take", "rechunk", "window", "reshape", "stack", "red", "axes", "scan", "mapblocks") or o.name in ("add_row", "mul_col", "add1", "where_gt", "as_f4")]
_m = X.make(
    "C03", M.judge_c03,
    quick=X.std_quick(ops=_LAYOUT), thorough=X.std_thorough(),
    rule="every program of the E1 space; for each the graph from __dask_graph__() is executed by the harness (optimize-graph on and off) and EVERY block key is fetched: block shape == chunks at that index, block dtype == dtype, assembled shape/dtype as advertised; non-trivial = a node with > 1 block",
    assumptions=["synchronous harness executor", "small scope as C01"],
    floors={"multi_block_outputs": 200, "root_renamed_or_bridged": 50},
)
globals().update(_m)
