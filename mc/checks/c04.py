"""C04 — graphs are closed, acyclic and produce exactly the advertised keys (E1)."""
from mc import e1check as X
from mc import monitors as M

_m = X.make(
    "C04", M.judge_c04,
    quick=X.std_quick(), thorough=X.std_thorough(),
    rule="every program of the E1 space, optimize-graph on and off: keys are the (name,*block) grid, every key defined, every dependency defined, Kahn acyclicity, no key defined by two layers with different tasks, name/chunks/dtype/keys unchanged by graph construction, optimize() and compute(); non-trivial = a node with > 1 block",
    assumptions=["dependencies are those reported by dask._task_spec after convert_legacy_graph", "small scope as C01"],
    floors={"root_renamed": 50},
)
globals().update(_m)
