"""C19 — windowed and scan operations match their NumPy definitions (E1 + E2)."""

from __future__ import annotations

import itertools

import numpy as np

from mc import casecheck as CC
from mc import explorer as E
from mc.domains import compositions

SWV_RED = [("sum", False), ("mean", False), ("max", True), ("min", True), ("std", False), ("var", False), ("prod", False), ("any", True), ("all", True)]
NAN_RED = ["nansum", "nanmean", "nanmax", "nanmin"]
BOUNDARIES = ["'none'", "'reflect'", "'periodic'", "'nearest'", "0.0", "7.5"]


def _gen_swv_1d(n, ch):
    src = E.src((n,), (ch,))
    for w in range(1, n + 1):
        yield {"source": src, "expr": f"da.sliding_window_view(x, {w}, axis=0)", "nexpr": f"uf.np_swv(a, {w}, 0)", "label": "swv"}
        for red, exact in SWV_RED:
            yield {"source": src, "expr": f"da.sliding_window_view(x, {w}, axis=0).{red}(axis=-1)", "nexpr": f"uf.np_swv(a, {w}, 0).{red}(axis=-1)", "label": f"swv-{red}", "exact": exact}
        yield {"source": src, "expr": f"da.sliding_window_view(x, {w}, axis=0).sum(axis=-1, keepdims=True)", "nexpr": f"uf.np_swv(a, {w}, 0).sum(axis=-1, keepdims=True)", "label": "swv-sum-keepdims", "exact": False}
    # explicit result dtypes narrower than the accumulator
    srci = E.src((n,), (ch,), "i8")
    for w in range(1, n + 1):
        for red, dt in (("sum", "int32"), ("sum", "int16"), ("prod", "int32"), ("sum", "uint32")):
            yield {"source": srci, "expr": f"da.sliding_window_view(x, {w}, axis=0).{red}(axis=-1, dtype='{dt}')", "nexpr": f"uf.np_swv(a, {w}, 0).{red}(axis=-1, dtype='{dt}')", "label": f"swv-{red}-{dt}"}
    for w in range(1, n + 1):
        yield {"source": src, "expr": f"da.sliding_window_view(x, {w}, axis=0).sum(axis=-1, dtype='float32')", "nexpr": f"uf.np_swv(a, {w}, 0).sum(axis=-1, dtype='float32')", "label": "swv-sum-float32", "exact": False}
    if n >= 2:
        srcn = E.src((n,), (ch,), nan=[1, n - 1])
        for w in range(1, n + 1):
            for red in NAN_RED:
                yield {"source": srcn, "expr": f"da.{red}(da.sliding_window_view(x, {w}, axis=0), axis=-1)", "nexpr": f"np.{red}(uf.np_swv(a, {w}, 0), axis=-1)", "label": f"swv-{red}", "exact": False}


def _gen_scan_1d(n, ch):
    src = E.src((n,), (ch,))
    for fn in ("cumsum", "cumprod", "nancumsum", "nancumprod"):
        for method in ("sequential", "blelloch"):
            yield {"source": src, "expr": f"da.{fn}(x, axis=0, method='{method}')", "nexpr": f"np.{fn}(a, axis=0)", "label": f"{fn}-{method}", "exact": False}
    srci = E.src((n,), (ch,), "i8")
    yield {"source": srci, "expr": "da.cumsum(x, axis=0)", "nexpr": "np.cumsum(a, axis=0)", "label": "cumsum-int"}
    yield {"source": srci, "expr": "da.cumsum(x, axis=0, method='blelloch')", "nexpr": "np.cumsum(a, axis=0)", "label": "cumsum-int"}
    if n >= 2:
        srcn = E.src((n,), (ch,), nan=[0, n // 2])
        for fn in ("nancumsum", "nancumprod", "cumsum"):
            for method in ("sequential", "blelloch"):
                yield {"source": srcn, "expr": f"da.{fn}(x, axis=0, method='{method}')", "nexpr": f"np.{fn}(a, axis=0)", "label": f"{fn}-{method}+nan", "exact": False}
    for k in range(1, 4):
        yield {"source": src, "expr": f"da.diff(x, n={k}, axis=0)", "nexpr": f"np.diff(a, n={k}, axis=0)", "label": "diff", "np_raises_must_raise": False}
    yield {"source": src, "expr": "da.diff(x, prepend=1.0, append=2.0)", "nexpr": "np.diff(a, prepend=1.0, append=2.0)", "label": "diff-prepend"}
    if n >= 2:
        yield {"source": src, "expr": "da.gradient(x, axis=0)", "nexpr": "np.gradient(a, axis=0)", "label": "gradient", "exact": False, "may_refuse": ["ValueError"]}
        yield {"source": src, "expr": "da.gradient(x, 2.0, axis=0)", "nexpr": "np.gradient(a, 2.0, axis=0)", "label": "gradient", "exact": False, "may_refuse": ["ValueError"]}
    if n >= 3:
        yield {"source": src, "expr": "da.gradient(x, edge_order=2, axis=0)", "nexpr": "np.gradient(a, edge_order=2, axis=0)", "label": "gradient", "exact": False, "may_refuse": ["ValueError"]}


def _gen_overlap_1d(n, ch):
    src = E.src((n,), (ch,))
    for d in (0, 1, 2):
        for b in BOUNDARIES:
            if n == 0:
                continue
            if b != "'none'" and d > n:
                continue
            yield {"source": src, "expr": f"da.map_overlap(uf.ov_sumd, x, depth={d}, boundary={b}, dtype=x.dtype, d={d})", "nexpr": f"uf.np_ov_sumd(a, {d}, {b})", "label": f"map_overlap-{b.strip(chr(39))}", "exact": False, "may_refuse": ["ValueError"]}
            # overlap followed by trim is the identity
            yield {"source": src, "expr": f"da.trim_overlap(da.overlap(x, depth={d}, boundary={b}), depth={d}, boundary={b})", "nexpr": "a", "label": f"overlap-trim-{b.strip(chr(39))}", "may_refuse": ["ValueError"]}
    # asymmetric depth (only valid with boundary none) through a trailing-window kernel
    for w in range(1, min(n, 4) + 1):
        for mc in (None, 1, w):
            mcs = "" if mc is None else f", min_count={mc}"
            for fn in ("move_sum", "move_mean", "move_min", "move_max"):
                yield {"source": src, "expr": f"da.map_overlap(__import__('bottleneck').{fn}, x, depth={{0: ({w - 1}, 0)}}, boundary='none', window={w}{mcs}, axis=0, dtype=x.dtype)", "nexpr": f"__import__('bottleneck').{fn}(a, window={w}{mcs}, axis=0)", "label": f"bottleneck-{fn}", "exact": False}


def _gen_sliced_1d(n, ch):
    """Every contiguous slice [i:j] (plus a few stepped ones) applied on top of
    each window/scan op: the slice is pushed through the op by the optimizer
    and must still see the halo / carry of the FULL array."""
    src = E.src((n,), (ch,))
    sls = [f"[{i}:{j}]" for i in range(n) for j in range(i + 1, n + 1) if not (i == 0 and j == n)] + ["[::-1]", "[::2]", "[1::2]", "[-2::-1]"]
    prods = []
    for d in (1, 2):
        for b in BOUNDARIES:
            if d <= n:
                prods.append((f"da.map_overlap(uf.ov_sumd, x, depth={d}, boundary={b}, dtype=x.dtype, d={d})", f"uf.np_ov_sumd(a, {d}, {b})", f"map_overlap-{b.strip(chr(39))}"))
    for w in (2, 3):
        if w <= n:
            for red in ("sum", "max"):
                prods.append((f"da.sliding_window_view(x, {w}, axis=0).{red}(axis=-1)", f"uf.np_swv(a, {w}, 0).{red}(axis=-1)", f"swv-{red}"))
            prods.append((f"da.map_overlap(__import__('bottleneck').move_sum, x, depth={{0: ({w - 1}, 0)}}, boundary='none', window={w}, min_count=1, axis=0, dtype=x.dtype)", f"__import__('bottleneck').move_sum(a, window={w}, min_count=1, axis=0)", "bottleneck-move_sum"))
    for method in ("sequential", "blelloch"):
        prods.append((f"da.cumsum(x, axis=0, method='{method}')", "np.cumsum(a, axis=0)", f"cumsum-{method}"))
    prods.append(("da.diff(x, axis=0)", "np.diff(a, axis=0)", "diff"))
    for e, ne, lab in prods:
        for sl in sls:
            yield {"source": src, "expr": f"({e}){sl}", "nexpr": f"({ne}){sl}", "label": lab + "+slice", "exact": False, "may_refuse": ["ValueError"], "np_raises_must_raise": False}


def _gen_2d(shape, chunks):
    src = E.src(shape, chunks)
    for ax in (0, 1, -1):
        n = shape[ax]
        for w in range(1, n + 1):
            yield {"source": src, "expr": f"da.sliding_window_view(x, {w}, axis={ax})", "nexpr": f"uf.np_swv(a, {w}, {ax})", "label": "swv-2d"}
            for red, exact in SWV_RED[:4]:
                yield {"source": src, "expr": f"da.sliding_window_view(x, {w}, axis={ax}).{red}(axis=-1)", "nexpr": f"uf.np_swv(a, {w}, {ax}).{red}(axis=-1)", "label": f"swv-{red}-2d", "exact": exact}
    yield {"source": src, "expr": "da.sliding_window_view(x, (2, 2), axis=(0, 1)).sum(axis=(-2, -1))", "nexpr": "np.lib.stride_tricks.sliding_window_view(a, (2, 2), axis=(0, 1)).sum(axis=(-2, -1))", "label": "swv-2axes", "exact": False}
    for ax in (0, 1):
        for fn in ("cumsum", "cumprod"):
            for method in ("sequential", "blelloch"):
                yield {"source": src, "expr": f"da.{fn}(x, axis={ax}, method='{method}')", "nexpr": f"np.{fn}(a, axis={ax})", "label": f"{fn}-{method}-2d", "exact": False}
        yield {"source": src, "expr": f"da.diff(x, axis={ax})", "nexpr": f"np.diff(a, axis={ax})", "label": "diff-2d"}
        for d in (1, 2):
            for b in BOUNDARIES:
                if d > shape[ax]:
                    continue
                yield {"source": src, "expr": f"da.map_overlap(uf.ov_sumd, x, depth={{{ax}: {d}}}, boundary={b}, dtype=x.dtype, d={d}, axis={ax})", "nexpr": f"uf.np_ov_sumd(a, {d}, {b}, {ax})", "label": f"map_overlap-{b.strip(chr(39))}-2d", "exact": False, "may_refuse": ["ValueError"]}
    for d in ((1, 1), (1, 0), (0, 2)):
        for b in ("'reflect'", "'periodic'", "'none'"):
            yield {"source": src, "expr": f"da.trim_overlap(da.overlap(x, depth={d}, boundary={b}), depth={d}, boundary={b})", "nexpr": "a", "label": "overlap-trim-2d", "may_refuse": ["ValueError"]}
    yield {"source": src, "expr": "da.cumsum(x, axis=None)", "nexpr": "np.cumsum(a, axis=None)", "label": "cumsum-flat", "exact": False}
    if min(shape) >= 2:
        yield {"source": src, "expr": "da.stack(da.gradient(x))", "nexpr": "np.stack(np.gradient(a))", "label": "gradient-2d", "exact": False, "may_refuse": ["ValueError"]}


def _gen_plan(n):
    """E2 part: band/middle decomposition of the native window kernels."""
    return []


def _many_block_chunkings(n, tier):
    """Chunkings of n with at least 7 blocks (the tree-shaped scans change
    shape with the number of blocks)."""
    if n <= 9:
        return [c for c in compositions(n) if len(c) >= 7]
    out = [(1,) * n, (2,) + (1,) * (n - 2), (1,) * (n - 2) + (2,)]
    if tier != "quick":
        out += [(1,) * k + (2,) + (1,) * (n - k - 2) for k in range(1, n - 2)]
    return out


def gen_cases(shard):
    w = shard["what"]
    if w == "scan-many":
        yield from _gen_scan_1d(shard["n"], tuple(shard["chunks"]))
        return
    if w == "1d":
        n, ch = shard["n"], tuple(shard["chunks"])
        yield from _gen_swv_1d(n, ch)
        yield from _gen_scan_1d(n, ch)
        yield from _gen_overlap_1d(n, ch)
        if n >= 5:
            yield from _gen_sliced_1d(n, ch)
    else:
        yield from _gen_2d(tuple(shard["shape"]), tuple(tuple(c) for c in shard["chunks"]))


def plan_shards(tier):
    shards = []
    nmax = 6 if tier == "quick" else 8
    for n in range(0, nmax + 1):
        chs = compositions(n)
        if tier == "quick" and n == 6:
            chs = chs[::2]
        if n == 8:
            chs = chs[::2]
        for ch in chs:
            shards.append({"what": "1d", "n": n, "chunks": list(ch)})
    for n in (7, 8, 9, 13, 14, 16, 17) if tier == "quick" else range(7, 34):
        for ch in _many_block_chunkings(n, tier):
            shards.append({"what": "scan-many", "n": n, "chunks": list(ch)})
    for shp in [(3, 5), (4, 4)] if tier != "quick" else [(3, 4)]:
        chs = list(itertools.product(*[compositions(s) for s in shp]))
        for c in chs[:: (4 if tier == "quick" else 3)]:
            shards.append({"what": "2d", "shape": list(shp), "chunks": [list(k) for k in c]})
    return shards


_m = CC.make(
    "C19", gen_cases, plan_shards,
    rule="1-D: every n, every chunking, every window 1..n: sliding_window_view alone and under sum/mean/max/min/std/var/prod/any/all and the nan-reducers; cumsum/cumprod/nancumsum/nancumprod x {sequential, blelloch} (also on axes cut into 7..17 blocks in quick, 7..33 in thorough: the Blelloch tree changes shape with the block count); diff n=1..3, prepend/append, gradient; map_overlap with depth 0/1/2 under every boundary kind (none, reflect, periodic, nearest, constants) against NumPy padding semantics, overlap+trim identity, bottleneck move_sum/mean/min/max with every window/min_count through map_overlap (native moving-window rewrite); for n >= 5 every contiguous slice [i:j] and four stepped/reversed slices on top of map_overlap (depth 1/2, every boundary), windowed sum/max, move_sum, cumsum and diff (slice pushdown through the window/scan). 2-D: both axes of small shapes. Non-trivial = multi-block source and non-empty result",
    assumptions=["NumPy sliding_window_view / np.pad semantics / bottleneck on the whole array are the references", "a documented ValueError for an overlap depth larger than the array is a refusal"],
    floors={"accepted": 5000},
)
globals().update(_m)
