"""C02 — every optimization phase and every fired rewrite preserves values
(E1 + rewrite tracer + fusion provenance)."""

from __future__ import annotations

import numpy as np

from mc import e1check as X
from mc import explorer as E
from mc import graphx as G
from mc import ops as OPS
from mc import rewrites as R

_SEEN_REWRITES = {}


def _exec(expr):
    """Lower without any simplification and execute as is."""
    low = G.lower_raw(expr)
    blocks, whole = G.exec_lowered(low)
    return whole


def _same(a, b, exact):
    return E.compare(a, b, exact=exact, dtype=True)


def _provenance(gdeps, key, common):
    seen, stack, out = set(), [key], set()
    while stack:
        k = stack.pop()
        if k in seen:
            continue
        seen.add(k)
        if isinstance(k, tuple) and k and k[0] in common and k != key:
            out.add(k)
            continue
        for d in gdeps.get(k, ()):
            stack.append(d)
    return out


def judge(y, ref, exact, check_dtype, out=None):
    expr = y.expr
    # ---- phases, with every fired rewrite recorded
    try:
        with R.recording() as rec:
            raw = G.lower_raw(expr)
            simp = expr.simplify()
            low = G.lower_raw(simp)
        fused = low.fuse()
    except NotImplementedError:
        return ("refused", "", "")
    except Exception as e:
        return ("optimize-raise", E.exc_sig(e), f"optimization raised {type(e).__name__}: {str(e)[:200]}")
    vals = {}
    for name, ex in (("raw", raw), ("lowered", low), ("fused", fused)):
        try:
            blocks, whole = G.exec_lowered(ex)
        except NotImplementedError:
            return ("refused", "", "")
        except Exception as e:
            return ("phase-raise", f"{name}:{E.exc_sig(e)}", f"executing the {name} form raised {type(e).__name__}: {str(e)[:200]}")
        vals[name] = whole
        bad = E.compare(whole, ref, exact=exact, dtype=check_dtype)
        if bad:
            return (f"phase-{bad[0]}", name, f"the {name} form differs from NumPy: {bad[1]}")
    for name in ("lowered", "fused"):
        bad = E.compare(vals[name], vals["raw"], exact=exact, dtype=True)
        if bad:
            return (f"phase-{bad[0]}", f"{name}-vs-raw", f"the {name} form differs from the raw form: {bad[1]}")
    # ---- every fired rewrite instance: after denotes the same array as before
    log = rec.log
    if out is not None:
        out.count("rewrite_instances", len(log))
        if log:
            out.count("programs_with_rewrites")
    for rule, before, after in log:
        if out is not None:
            out.dcount("rule_fired", rule)
        key = (before._name, after._name)
        if key in _SEEN_REWRITES:
            continue
        _SEEN_REWRITES[key] = True
        if len(_SEEN_REWRITES) > 200000:
            _SEEN_REWRITES.clear()
        if out is not None:
            out.count("distinct_rewrites_checked")
        try:
            vb = _exec(before)
        except Exception:
            if out is not None:
                out.count("rewrite_before_not_executable")
            continue
        try:
            if tuple(after.shape) != tuple(before.shape) and not any(s != s for s in tuple(after.shape) + tuple(before.shape)):
                return ("rewrite-shape", rule, f"{rule}: rewrote {type(before).__name__} of shape {before.shape} into {type(after).__name__} of shape {after.shape}")
            if after.dtype != before.dtype:
                return ("rewrite-dtype", rule, f"{rule}: dtype {before.dtype} -> {after.dtype}")
            va = _exec(after)
        except NotImplementedError:
            continue
        except Exception as e:
            return ("rewrite-raise", f"{rule}:{E.exc_sig(e)}", f"{rule}: the rewritten expression ({type(after).__name__}) cannot be executed: {type(e).__name__}: {str(e)[:200]}")
        bad = E.compare(va, vb, exact=exact, dtype=True)
        if bad:
            return (f"rewrite-{bad[0]}", rule, f"{rule}: {type(before).__name__} -> {type(after).__name__} changes the denoted array: {bad[1]} (before vs after)")
    # ---- fusion provenance: per output block, the same external input blocks
    if fused._name != low._name:
        try:
            gu, gf = dict(G.graph_of(low)), dict(G.graph_of(fused))
            du, _ = G.task_deps(gu)
            df, _ = G.task_deps(gf)
            common = {k[0] for k in gu if isinstance(k, tuple)} & {k[0] for k in gf if isinstance(k, tuple)}
            ku, kf = G.flat_keys(low.__dask_keys__()), G.flat_keys(fused.__dask_keys__())
            if len(ku) != len(kf):
                return ("fusion-grid", "", f"fused root has {len(kf)} blocks, unfused {len(ku)}")
            for a, b in zip(ku, kf):
                pu, pf = _provenance(du, a, common), _provenance(df, b, common)
                if pu != pf:
                    return ("fusion-provenance", "", f"output block {a[1:]}: fused task reads input blocks {sorted(map(str, pf))[:4]} but the unfused graph reads {sorted(map(str, pu))[:4]}")
            if out is not None:
                out.count("fusion_checked")
        except NotImplementedError:
            pass
        except Exception as e:
            return ("fusion-check-raise", E.exc_sig(e), f"{type(e).__name__}: {str(e)[:200]}")
    return None


def _nontrivial(ctx):
    return bool(ctx.case["steps"])


_SHARING = ["add_row", "mul_col", "add_0d", "cat_parts", "cat3", "b_add", "b_mul", "b_cat", "b_where", "b_stack", "add_selfT"]


def _quick(seed):
    S = X.std_sources("quick")[:10]
    ops = OPS.REWRITE
    shards = E.plan_shards(S, ops, 2)
    s2, b2 = X.ml_shards("quick")
    return shards + s2, dict({"depth": 2, "ops": len(ops), "sources": len(S)}, **b2)


def _thorough(seed):
    S = X.std_sources("thorough")
    S = S[::3][:24]
    # not in this alphabet: binary matmul (its interior partial-product node is
    # only defined up to the later sum over contraction blocks, so "a rewrite
    # keeps the denotation of the node it replaces" does not apply to it; the
    # whole-program phases of matmul programs are C01/C03's) and the
    # dask-valued assignments added for C29 (fusion provenance over the
    # inlined value graph was not adjudicated)
    ops = [o for o in OPS.ALL if o.name not in ("b_matmul", "set_daskval", "set_daskval_mb")]
    shards = E.plan_shards(S, ops, 2)
    d3 = OPS.subset(names=X.D3_OPS)
    S3 = S[::4][:6]
    shards += E.plan_shards(S3, d3, 3, binary=False)
    s2, b2 = X.ml_shards("thorough")
    return shards + s2, dict({"depth2": {"ops": len(ops), "sources": len(S)}, "depth3": {"ops": len(d3), "sources": len(S3)}}, **b2)


_m = X.make(
    "C02", judge,
    quick=_quick, thorough=_thorough,
    rule="every program of the E1 space (incl. shared subtrees: binary ops over any two pool nodes, self-broadcast ops, multi-leaf pools): (1) the raw-lowered, simplified+lowered and fused forms are executed as they are and compared with NumPy and with each other; (2) every (before, after) pair produced by any _simplify_down/_simplify_up/_lower hook while optimizing is executed by raw lowering and must denote the same array (shape, dtype, values); (3) for every fused root, each output block reads the same external input blocks in the fused and unfused graphs. Non-trivial = program with >= 1 op",
    assumptions=["the 'before' side of a rewrite is evaluated by lowering without simplification", "fusion provenance compares reachable keys of nodes present in both graphs"],
    nontrivial=_nontrivial,
    floors={"rewrite_instances": 5000, "distinct_rewrites_checked": 1000, "fusion_checked": 500},
)
globals().update(_m)
_cov0 = _m["coverage"]


def coverage(agg, plan):
    c = _cov0(agg, plan)
    fired = agg.dicts.get("rule_fired", {})
    allr = R.rules()
    c["rules_total"] = len(allr)
    c["rules_fired"] = len(fired)
    c["rules_never_fired"] = sorted(set(allr) - set(fired))
    c["rewrite_instances"] = agg.counters["rewrite_instances"]
    c["distinct_rewrites_checked"] = agg.counters["distinct_rewrites_checked"]
    return c
