"""C26 — xarray integration is strictly opt-in (E5: fork-snapshot BFS over
import/registration events in pristine interpreters)."""

from __future__ import annotations

import json
import os
import subprocess
import sys
import time

PROPERTY = "C26"

BUILTIN = "xarray.namedarray.daskmanager.DaskManager"
OURS = "dask_array._xarray.DaskArrayExprManager"


def events():
    """import of the package and of every submodule, import xarray,
    register(), isactive()."""
    import pkgutil

    import dask_array

    mods = ["dask_array"]
    for m in pkgutil.walk_packages(dask_array.__path__, "dask_array."):
        if ".tests" in m.name or m.name.endswith(".conftest"):
            continue
        mods.append(m.name)
    ev = [f"import:{m}" for m in sorted(set(mods))]
    ev += ["import:xarray", "register", "isactive", "register_via_private", "dask_dispatch"]
    return ev


def _do(event):
    """Execute one event in the current interpreter; returns a short outcome."""
    import importlib

    if event.startswith("import:"):
        try:
            importlib.import_module(event[7:])
            return "ok"
        except ImportError as e:
            return "ImportError"
        except Exception as e:  # noqa: BLE001
            return type(e).__name__
    if event == "register":
        import dask_array.xarray as dx

        dx.register()
        return "ok"
    if event == "register_via_private":
        # not an opt-in path of the public API: importing the private module
        # alone must not register either
        try:
            importlib.import_module("dask_array._xarray")
            return "ok"
        except Exception as e:  # noqa: BLE001
            return type(e).__name__
    if event == "dask_dispatch":
        # ordinary use that goes through dask's collection dispatch (the hook
        # dask_array wraps around dask._collections.new_collection)
        try:
            import dask
            from dask._collections import new_collection

            import dask_array as da

            x = da.ones((4,), chunks=2) + 1
            new_collection(x.expr)
            dask.persist(x, scheduler="sync")
            if "xarray" in sys.modules:
                import xarray as xr

                ds = xr.Dataset({"a": ("x", x)})
                dask.persist(ds, scheduler="sync")
            return "ok"
        except Exception as e:  # noqa: BLE001
            return type(e).__name__
    if event == "isactive":
        import dask_array.xarray as dx

        before = "dask_array._xarray" in sys.modules
        r = dx.isactive()
        after = "dask_array._xarray" in sys.modules
        return f"isactive={r};imported_private={after and not before}"
    raise ValueError(event)


def _observe():
    loaded = sorted(m for m in sys.modules if m == "dask_array" or m.startswith("dask_array."))
    return {"n_da_modules": len(loaded), "da_modules_hash": hash(tuple(loaded)) & 0xFFFFFFFF, "xarray": "xarray" in sys.modules, "private_loaded": "dask_array._xarray" in sys.modules}


def _probe():
    """Which chunk manager does xarray use now?  (Imports xarray if needed:
    the import order 'dask_array things first, xarray afterwards' is part of
    the quantifier.)"""
    import importlib

    try:
        importlib.import_module("xarray")
        from xarray.namedarray.parallelcompat import list_chunkmanagers

        m = list_chunkmanagers().get("dask")
        mt = type(m).__module__ + "." + type(m).__name__
    except Exception as e:  # noqa: BLE001
        mt = "ERR:" + type(e).__name__
    try:
        import dask_array.xarray as dx

        act = dx.isactive()
    except Exception as e:  # noqa: BLE001
        act = "ERR:" + type(e).__name__
    # a Dataset chunked now uses ...
    try:
        import numpy as np
        import xarray as xr

        ds = xr.DataArray(np.arange(6.0), dims="x").chunk({"x": 3})
        dtype = type(ds.data).__module__ + "." + type(ds.data).__name__
    except Exception as e:  # noqa: BLE001
        dtype = "ERR:" + type(e).__name__
    return {"manager": mt, "isactive": act, "chunked_type": dtype}


def worker_expand(history, evs):
    """Runs in a pristine interpreter: replay ``history`` then fork one child
    per event; each child executes the event, observes and probes."""
    for e in history:
        _do(e)
    out = []
    for e in evs:
        r, w = os.pipe()
        pid = os.fork()
        if pid == 0:
            try:
                os.close(r)
                res = {"event": e}
                try:
                    res["outcome"] = _do(e)
                except Exception as ex:  # noqa: BLE001
                    res["outcome"] = "RAISE:" + type(ex).__name__ + ":" + str(ex)[:100]
                res["obs"] = _observe()
                # probing needs xarray; when it is not loaded in this state the
                # probe is exactly the `import:xarray` transition of this state,
                # explored at the next level (or by the closing pass)
                res["probe"] = _probe() if res["obs"]["xarray"] else None
                os.write(w, json.dumps(res).encode())
            finally:
                os._exit(0)
        os.close(w)
        buf = b""
        while True:
            chunk = os.read(r, 65536)
            if not chunk:
                break
            buf += chunk
        os.close(r)
        os.waitpid(pid, 0)
        try:
            out.append(json.loads(buf.decode()))
        except Exception:
            out.append({"event": e, "outcome": "CHILD-DIED", "obs": {}, "probe": {}})
    print("RESULT=" + json.dumps(out))


def _expand(history, evs):
    from mc.common import PY, REPO, VERIF

    env = {k: v for k, v in os.environ.items() if k not in ("_VERIF_REEXEC",)}
    env["PYTHONPATH"] = os.pathsep.join([REPO, VERIF])
    p = subprocess.run([PY, "-m", "mc.checks.c26", "expand", json.dumps(history), json.dumps(evs)], env=env, cwd=VERIF, capture_output=True, text=True, timeout=3000)
    line = [l for l in p.stdout.splitlines() if l.startswith("RESULT=")]
    if not line:
        raise RuntimeError("expand worker failed: " + p.stderr[-1500:])
    return json.loads(line[0][7:])


def _key(history_flags, obs):
    return (obs.get("da_modules_hash"), obs.get("n_da_modules"), obs.get("xarray"), obs.get("private_loaded"), history_flags)


def _check(history, res):
    """Invariant in the state reached by history + res['event']."""
    h = history + [res["event"]]
    registered = "register" in h
    pr = res.get("probe")
    sig = None
    if str(res.get("outcome", "")).startswith("RAISE") or res.get("outcome") == "CHILD-DIED":
        return ("event-raise", f"event {res['event']} after {history}: {res.get('outcome')}")
    if res["event"] == "isactive" and "imported_private=True" in str(res.get("outcome")):
        return ("isactive-imports", f"isactive() imported dask_array._xarray (history {history})")
    if res["event"] == "isactive" and not registered and "isactive=True" in str(res.get("outcome")):
        return ("isactive-without-register", f"isactive() is True without register() (history {h})")
    if pr is None:
        return None
    if not registered:
        if pr.get("manager") != BUILTIN:
            return ("manager-changed", f"after {h} xarray's 'dask' chunk manager is {pr.get('manager')} without register()")
        if pr.get("isactive") is not False:
            return ("isactive-without-register", f"after {h}: isactive() = {pr.get('isactive')} without register()")
        if "dask_array" in str(pr.get("chunked_type")):
            return ("chunked-with-ours", f"after {h}: DataArray.chunk() produced {pr.get('chunked_type')} without register()")
    else:
        if pr.get("manager") != OURS:
            return ("register-ineffective", f"after {h} (register() called) the manager is {pr.get('manager')}")
        if pr.get("isactive") is not True:
            return ("register-ineffective", f"after {h}: isactive() = {pr.get('isactive')} after register()")
        if "dask_array" not in str(pr.get("chunked_type")):
            return ("register-ineffective", f"after {h}: DataArray.chunk() produced {pr.get('chunked_type')} after register()")
    return None


def plan(tier, seed):
    nch = 3 if tier == "quick" else 5
    return {
        "shards": [{"tier": tier, "what": "bfs"}] + [{"tier": tier, "what": "compute", "chunking": i} for i in range(nch)],
        "workers": 1 + nch,
        "coverage": {
            "exhaustive": True,
            "bounds": {"depth": 2 if tier == "quick" else 3, "events": "import of the package and every submodule, import xarray, register(), isactive(), import of the private module"},
            "rule": "breadth-first search from a pristine interpreter over import/registration events; each distinct state (set of loaded dask_array modules, xarray loaded?, private module loaded?, register() in history?) is expanded once: the history is replayed in a fresh interpreter and every event is executed in a forked child (fork is the snapshot), which then observes the state and probes xarray (importing it if necessary): without register() the 'dask' chunk manager must be xarray's built-in one, isactive() False and DataArray.chunk() must not produce dask_array arrays; after register() the manager is ours and isactive() True; isactive() never imports the private module. Second half: xarray computations on registered dask_array-backed objects equal NumPy-backed ones. Non-trivial = state with xarray and some dask_array module loaded",
        },
        "assumptions": ["a module body runs once, so futures depend only on the set of bodies already run (state key)", "import errors of _frisky.* (no native extension) are ordinary events"],
    }


def run_shard(shard):
    from concurrent.futures import ThreadPoolExecutor

    from mc.common import ShardOut, nworkers

    out = ShardOut()
    tier = shard["tier"]
    if shard["what"] == "compute":
        return _run_compute(shard, out)
    # (thorough: two levels, the second one over every event from every state
    # reached by one xarray-related / registration / dispatch event and over the
    # core events elsewhere; a third level over all 160 events took more than
    # two hours and could not be re-verified after the alphabet grew)
    depth = 2
    evs = events()
    seen = {}
    frontier = [[]]
    seen[("root",)] = []
    t0 = time.time()
    core = [e for e in evs if not e.startswith("import:dask_array.")] + ["import:dask_array.xarray", "import:dask_array._xarray", "import:dask_array._collection", "import:dask_array.random", "import:dask_array._frisky.collect", "import:dask_array.io", "import:dask_array.linalg", "import:dask_array._expr"]
    core = [e for e in core if e in evs]
    for level in range(depth):
        if not frontier:
            break
        # quick tier: the first level is expanded over every event, deeper
        # levels over the core events (the package, xarray, register/isactive,
        # the integration modules and a few representative submodules)
        jobs = []
        for h in frontier:
            # (quick) states reached by one xarray-related event are also
            # expanded over every event: an import-time side effect of any
            # submodule that depends on xarray being loaded first shows there
            full = level == 0 or (len(h) == 1 and (h[0] == "import:xarray" or (tier != "quick" and h[0] in ("import:dask_array._xarray", "import:dask_array.xarray", "register_via_private", "register", "isactive", "dask_dispatch", "import:dask_array"))))
            level_evs = evs if full else core
            for c0 in range(0, len(level_evs), 6):
                jobs.append((h, level_evs[c0:c0 + 6]))
        with ThreadPoolExecutor(nworkers()) as tp:
            parts = list(tp.map(lambda j: (j[0], _expand(j[0], j[1])), jobs))
        merged = {}
        for h, rl in parts:
            merged.setdefault(tuple(h), []).extend(rl)
        results = [(list(h), rl) for h, rl in merged.items()]
        nxt = []
        for h, reslist in results:
            out.count("states_expanded")
            for res in reslist:
                out.count("transitions")
                out.count("evaluations")
                flags = ("register" in h + [res["event"]],)
                k = _key(flags, res.get("obs", {}))
                bad = _check(h, res)
                if bad:
                    out.fail({"kind": bad[0], "signature": bad[0] + ":" + res["event"].split(":")[0], "case": {"history": h, "event": res["event"]}, "detail": bad[1]})
                if res.get("obs", {}).get("xarray") and res.get("obs", {}).get("n_da_modules", 0) > 0:
                    out.count("nontrivial")
                if res.get("outcome") == "ImportError":
                    out.count("import_errors")
                if k not in seen:
                    seen[k] = h + [res["event"]]
                    nxt.append(h + [res["event"]])
        frontier = nxt
        out.count(f"distinct_states_after_level_{level + 1}", len(seen))
    # closing pass: states of the last level in which xarray is not loaded get
    # their `import xarray` probe too
    closing = [h for k, h in seen.items() if k != ("root",) and not k[2]]
    with ThreadPoolExecutor(nworkers()) as tp:
        for h, reslist in tp.map(lambda h: (h, _expand(h, ["import:xarray"])), closing):
            for res in reslist:
                out.count("transitions")
                out.count("closing_probes")
                bad = _check(h, res)
                if bad:
                    out.fail({"kind": bad[0], "signature": bad[0] + ":closing", "case": {"history": h, "event": res["event"]}, "detail": bad[1]})
    for k in seen:
        out.sadd("state_keys", hash(k))
    out.count("fixpoint_reached", 0 if frontier else 1)
    out.sample({"history": frontier[0] if frontier else [], "distinct_states": len(seen)})
    return out.result()


def _run_compute(shard, out):
    tier = shard["tier"]
    # second half: registered-manager computations equal NumPy-backed ones
    env = {k: v for k, v in os.environ.items() if k != "_VERIF_REEXEC"}
    from mc.common import PY, REPO, VERIF

    env["PYTHONPATH"] = os.pathsep.join([REPO, VERIF])
    p = subprocess.run([PY, "-m", "mc.checks.c26", "compute", tier, str(shard["chunking"])], env=env, cwd=VERIF, capture_output=True, text=True, timeout=3000)
    line = [l for l in p.stdout.splitlines() if l.startswith("RESULT=")]
    if not line:
        out.fail({"kind": "xarray-compute-crash", "signature": "xarray-compute-crash", "case": {"history": ["compute"], "event": "compute"}, "detail": p.stderr[-800:]})
    else:
        r = json.loads(line[0][7:])
        out.count("xarray_programs", r["n"])
        out.count("evaluations", r["n"])
        for f in r["failures"][:20]:
            out.fail({"kind": "xarray-value", "signature": "xarray-value:" + f["op"].split(">")[-1], "case": {"history": ["compute"], "event": f["op"]}, "detail": f["msg"]})
    return out.result()


def worker_compute(tier, only=None):
    """Registered-manager computations: a small xarray alphabet, depth <= 2,
    on dask_array-backed vs NumPy-backed objects."""
    import numpy as np
    import xarray as xr

    import dask_array.xarray as dx

    dx.register()
    a = np.arange(24.0).reshape(4, 6) + 10
    OPS = {
        "add": lambda d: d + 1, "mul": lambda d: d * d, "mean_x": lambda d: d.mean("x"), "sum": lambda d: d.sum(), "max_y": lambda d: d.max("y"), "std": lambda d: d.std("x"),
        "isel": lambda d: d.isel(x=slice(1, 3)), "isel_rev": lambda d: d.isel(y=slice(None, None, -1)), "isel_list": lambda d: d.isel(y=[0, 2, 5]), "sel": lambda d: d.sel(x=[1, 2]),
        "roll_mean": lambda d: d.rolling(y=3).mean(), "roll_sum_mp": lambda d: d.rolling(y=2, min_periods=1).sum(), "roll_max_center": lambda d: d.rolling(y=3, center=True).max(),
        "concat": lambda d: xr.concat([d, d + 1], dim="x"), "where": lambda d: d.where(d > 15), "T": lambda d: d.transpose("y", "x"), "cumsum": lambda d: d.cumsum("y"),
        "diff": lambda d: d.diff("y"), "shift": lambda d: d.shift(y=1), "pad": lambda d: d.pad(y=1), "coarsen": lambda d: d.coarsen(y=2).mean(), "fillna": lambda d: d.where(d > 15).fillna(0),
        "argmax": lambda d: d.argmax("y"), "quantile_skip": None, "rechunk": lambda d: d.chunk({k: 2 for k in d.dims}) if d.chunks else d,
    }
    OPS = {k: v for k, v in OPS.items() if v is not None}
    chunkings = [{"x": 2, "y": 3}, {"x": 1, "y": 6}, {"x": 4, "y": 1}] if tier == "quick" else [{"x": 2, "y": 3}, {"x": 1, "y": 6}, {"x": 4, "y": 1}, {"x": 3, "y": 4}, {"x": 1, "y": 1}]
    base = xr.DataArray(a, dims=("x", "y"), coords={"x": np.arange(4), "y": np.arange(6)})
    fails, n = [], 0
    for ci, ch in enumerate(chunkings):
        if only is not None and ci != only:
            continue
        d0 = base.chunk(ch)
        if "dask_array" not in type(d0.data).__module__:
            fails.append({"op": "chunk", "msg": f"after register() .chunk() produced {type(d0.data)}"})
            continue
        progs = [(k,) for k in OPS] + [(k1, k2) for k1 in OPS for k2 in OPS]
        for prog in progs:
            try:
                ref = base
                for k in prog:
                    ref = OPS[k](ref)
            except Exception:
                continue
            n += 1
            try:
                d = d0
                for k in prog:
                    d = OPS[k](d)
                val = d.compute(scheduler="sync")
            except NotImplementedError:
                continue
            except Exception as e:  # noqa: BLE001
                fails.append({"op": ">".join(prog), "msg": f"chunks {ch} program {prog}: dask_array-backed xarray raised {type(e).__name__}: {str(e)[:150]}"})
                continue
            rv, vv = np.asarray(ref.values), np.asarray(val.values)
            if rv.shape != vv.shape or not np.allclose(rv, vv, equal_nan=True):
                fails.append({"op": ">".join(prog), "msg": f"chunks {ch} program {prog}: values differ from the NumPy-backed object"})
    print("RESULT=" + json.dumps({"n": n, "failures": fails}))


def coverage(agg, plan):
    c = agg.counters
    return {"states": len(agg.sets.get("state_keys", ())), "transitions": c["transitions"], "traces_validated_against_impl": c["transitions"], "evaluations": c["evaluations"], "distinct_nontrivial": c["nontrivial"], "states_expanded": c["states_expanded"], "xarray_programs": c["xarray_programs"], "fixpoint_reached": bool(c["fixpoint_reached"])}


def vacuity(agg, plan):
    c = agg.counters
    v = []
    if c["transitions"] < 300:
        v.append(f"only {c['transitions']} transitions")
    if c["xarray_programs"] < 100:
        v.append("too few xarray programs")
    return v


def replay(case):
    if case["history"] == ["compute"]:
        return None
    evs = [case["event"]]
    res = _expand(case["history"], evs)[0]
    bad = _check(case["history"], res)
    if bad:
        return {"kind": bad[0], "signature": bad[0] + ":" + res["event"].split(":")[0], "detail": bad[1]}
    return None


if __name__ == "__main__":
    if sys.argv[1] == "expand":
        worker_expand(json.loads(sys.argv[2]), json.loads(sys.argv[3]))
    elif sys.argv[1] == "compute":
        worker_compute(sys.argv[2], int(sys.argv[3]) if len(sys.argv) > 3 else None)
