"""Module-level helper functions used by op templates (stable qualnames, so
dask can tokenize them deterministically).  The text of this file is embedded
in stand-alone replay scripts."""

import numpy as np


def ub_double(b):
    return b * 2


def ub_plus_first(b):
    # depends on the block's own content only through elementwise math
    return b + 1.5


def ub_neg(b):
    return -b


def ov_sum3(b):
    # 1-D/ND neighbour sum along axis 0 computed on an overlapped block
    out = b.copy()
    out[1:-1] = b[:-2] + b[1:-1] + b[2:]
    return out


def np_topk(a, k, axis=-1):
    a = np.asarray(a)
    if k > 0:
        s = np.sort(a, axis=axis)
        s = np.flip(s, axis=axis)
        return np.take(s, np.arange(min(k, a.shape[axis])), axis=axis)
    s = np.sort(a, axis=axis)
    return np.take(s, np.arange(min(-k, a.shape[axis])), axis=axis)


def np_argtopk(a, k, axis=-1):
    a = np.asarray(a)
    if k > 0:
        idx = np.argsort(-a, axis=axis, kind="stable")
        return np.take(idx, np.arange(min(k, a.shape[axis])), axis=axis)
    idx = np.argsort(a, axis=axis, kind="stable")
    return np.take(idx, np.arange(min(-k, a.shape[axis])), axis=axis)


def np_swv(a, w, axis):
    return np.lib.stride_tricks.sliding_window_view(a, w, axis=axis)


def np_ov_sum3(a, mode):
    """Reference for map_overlap(ov_sum3, depth={0:1}, boundary=mode) on the
    whole array: neighbour sum along axis 0 with NumPy padding semantics."""
    a = np.asarray(a)
    if a.shape[0] == 0:
        return a.copy()
    padw = [(1, 1)] + [(0, 0)] * (a.ndim - 1)
    if mode == "reflect":
        # dask's "reflect" boundary mirrors including the edge (NumPy 'symmetric')
        p = np.pad(a, padw, mode="symmetric")
    elif mode == "periodic":
        p = np.pad(a, padw, mode="wrap")
    elif mode == "nearest":
        p = np.pad(a, padw, mode="edge")
    else:
        p = np.pad(a, padw, mode="constant", constant_values=mode)
    out = p.copy()
    out[1:-1] = p[:-2] + p[1:-1] + p[2:]
    return out[1:-1]


def np_moment(a, order, axis=None, keepdims=False):
    a = np.asarray(a)
    a = a.astype("c16") if a.dtype.kind == "c" else (a if a.dtype.kind == "f" else a.astype("f8"))
    mu = a.mean(axis=axis, keepdims=True)
    return ((a - mu) ** order).mean(axis=axis, keepdims=keepdims)


def ov_sumd(b, d=1, axis=0):
    """Centered window sum of half-width d along ``axis`` on the interior of
    a block; positions closer than d to the block edge keep their value (they
    are the halo that map_overlap trims, or the array edge under 'none')."""
    b = np.asarray(b)
    out = b.copy()
    n = b.shape[axis]
    if d == 0 or n <= 2 * d:
        return out
    acc = np.zeros_like(np.take(b, range(d, n - d), axis=axis))
    for k in range(-d, d + 1):
        acc = acc + np.take(b, range(d + k, n - d + k), axis=axis)
    idx = [slice(None)] * b.ndim
    idx[axis] = slice(d, n - d)
    out[tuple(idx)] = acc
    return out


def np_ov_sumd(a, d, mode, axis=0):
    """Whole-array reference for map_overlap(ov_sumd, depth={axis: d},
    boundary=mode): pad per boundary kind, apply, trim."""
    a = np.asarray(a)
    if d == 0:
        return a.copy()
    if mode == "none":
        return ov_sumd(a, d, axis)
    padw = [(0, 0)] * a.ndim
    padw[axis] = (d, d)
    if mode == "reflect":
        p = np.pad(a, padw, mode="symmetric")
    elif mode == "periodic":
        p = np.pad(a, padw, mode="wrap")
    elif mode == "nearest":
        p = np.pad(a, padw, mode="edge")
    else:
        p = np.pad(a, padw, mode="constant", constant_values=mode)
    r = ov_sumd(p, d, axis)
    idx = [slice(None)] * a.ndim
    idx[axis] = slice(d, d + a.shape[axis])
    return r[tuple(idx)]


# ---- stateful-looking ops expressed as pure functions of (module, array)


def set_slice(m, x, idx, v):
    y = x.copy()
    y[idx] = v
    return y


def set_masked(m, x, idx):
    y = x.copy() if m is np else x.copy()
    if m is np:
        y = np.ma.masked_array(y)
    y[idx] = np.ma.masked
    return y


def add_where_out(m, x, k=12):
    o = x * 0
    m.add(x, 1000, where=x > k, out=o)
    return o


def sin_out_self(m, x):
    y = x.copy() if m is np else x + 0
    m.sin(y, out=y)
    return y


def add_where_out_self(m, x, k=12):
    y = x.copy() if m is np else x.copy()
    m.add(y, 1000, where=y > k, out=y)
    return y


# ---- block-layout dependent references: the explorer sets CH to the chunks
# of the dask operands (layout advertised at call time) before evaluating the
# NumPy side of an op

CH = []


def demean0(b):
    """A block function whose result depends on where the block boundaries are."""
    b = np.asarray(b, dtype="f8")
    if b.ndim == 0 or b.shape[0] == 0:
        return b
    return b - b.mean(axis=0, keepdims=True)


def np_blockmap(fn, a, chunks):
    """Apply fn to every block of ``a`` under the layout ``chunks``."""
    import itertools

    a = np.asarray(a)
    if a.ndim == 0:
        return fn(a)
    out = np.empty(a.shape, dtype="f8")
    offs = [np.concatenate([[0], np.cumsum(c)]).astype(int) for c in chunks]
    for idx in itertools.product(*[range(len(c)) for c in chunks]):
        sl = tuple(slice(offs[ax][i], offs[ax][i + 1]) for ax, i in enumerate(idx))
        out[sl] = fn(a[sl])
    return out


def np_block_at(a, chunks, idx):
    """Concatenation of the blocks selected by ``idx`` (an index into the block grid, axis 0)."""
    a = np.asarray(a)
    offs = np.concatenate([[0], np.cumsum(chunks[0])]).astype(int)
    sel = np.arange(len(chunks[0]))[idx]
    sel = np.atleast_1d(sel)
    parts = [a[offs[k]:offs[k + 1]] for k in sel]
    return np.concatenate(parts) if parts else a[:0]


# ---- weighted reduction kernels (da.reduction(..., weights=w))


def w_chunk(x, weights=None, axis=None, keepdims=False):
    return np.sum(x * weights, axis=axis, keepdims=keepdims)


def w_agg(x, axis=None, keepdims=False):
    return np.sum(x, axis=axis, keepdims=keepdims)


def mbk(b, k=1.0):
    return b * k


# ---- references that only a clean interpreter can give (random arrays):
# filled by the check from a fresh subprocess before exploration starts
REFS = {}


def clean_ref(opname, shape):
    return np.array(REFS[(opname, tuple(shape))])


RANDOM_SRC = {
    "rnd_seed1": "da.random.default_rng(1).random({shape}, chunks=2)",
    "rnd_seed2": "da.random.default_rng(2).random({shape}, chunks=2)",
    "rnd_ss_a": "da.random.default_rng(np.random.SeedSequence(5).spawn(2)[0]).random({shape}, chunks=2)",
    "rnd_ss_b": "da.random.default_rng(np.random.SeedSequence(5).spawn(2)[1]).random({shape}, chunks=2)",
    "rnd_rs1": "da.random.RandomState(3).normal(size={shape}, chunks=3)",
    "rnd_rs2": "da.random.RandomState(4).normal(size={shape}, chunks=3)",
    "rnd_poisson": "da.random.default_rng(7).poisson(3.0, size={shape}, chunks=2)",
    "rnd_int": "da.random.default_rng(7).integers(0, 10, size={shape}, chunks=2)",
    "rnd_normal_c3": "da.random.default_rng(1).normal(size={shape}, chunks=3)",
    "rnd_uniform": "da.random.RandomState(3).uniform(size={shape}, chunks=2)",
}
RANDOM_SHAPES = [(6,), (8,), (3, 4), (4, 4)]


# ---- recording block functions for C20 (block_info / block_id)
LOG = []


def _cs(info):
    """chunk shape of an input as block_info describes it ('chunk-shape' is
    only documented for the output entry; array-location always carries it)."""
    if "chunk-shape" in info:
        return tuple(info["chunk-shape"])
    return tuple(int(b) - int(a) for a, b in info["array-location"])


def rec_info(b, block_info=None):
    if block_info is not None and getattr(b, "size", 0):
        i0 = block_info[0]
        LOG.append({"kind": "info", "loc": tuple(i0["chunk-location"]), "aloc": [tuple(t) for t in i0["array-location"]], "cshape": _cs(i0), "nchunks": tuple(i0["num-chunks"]), "shape": tuple(i0["shape"]), "bshape": tuple(b.shape), "out": {k: (tuple(v) if isinstance(v, (list, tuple)) else v) for k, v in block_info[None].items() if k in ("chunk-location", "chunk-shape", "num-chunks", "shape")}})
    return b


def rec_id(b, block_id=None):
    if block_id is not None and getattr(b, "size", 0):
        LOG.append({"kind": "id", "loc": tuple(block_id), "bshape": tuple(b.shape)})
    return b


def rec_both(b, block_info=None, block_id=None):
    if block_info is not None and block_id is not None and getattr(b, "size", 0):
        i0 = block_info[0]
        LOG.append({"kind": "both", "loc": tuple(i0["chunk-location"]), "id": tuple(block_id), "aloc": [tuple(t) for t in i0["array-location"]], "cshape": _cs(i0), "nchunks": tuple(i0["num-chunks"]), "shape": tuple(i0["shape"]), "bshape": tuple(b.shape)})
    return b


def rec_two(b, c, block_info=None):
    if block_info is not None and getattr(b, "size", 0):
        LOG.append({"kind": "two", "loc": tuple(block_info[0]["chunk-location"]), "aloc": [tuple(t) for t in block_info[0]["array-location"]], "cshape": _cs(block_info[0]), "nchunks": tuple(block_info[0]["num-chunks"]), "shape": tuple(block_info[0]["shape"]), "bshape": tuple(b.shape),
                    "loc1": tuple(block_info[1]["chunk-location"]), "cshape1": _cs(block_info[1]), "cbshape": tuple(c.shape)})
    return b + c


def _rec_mixed(b, c, block_info):
    if block_info is not None and getattr(b, "size", 0) and getattr(c, "size", 0):
        i0, i1 = block_info[0], block_info[1]
        LOG.append({"kind": "mixed", "loc": tuple(i0["chunk-location"]), "aloc": [tuple(t) for t in i0["array-location"]], "bshape": tuple(b.shape),
                    "aloc1": [tuple(int(v) for v in t) for t in i1["array-location"]], "cbshape": tuple(c.shape), "c0": float(np.asarray(c).ravel()[0]), "nchunks1": tuple(i1["num-chunks"]), "loc1": tuple(i1["chunk-location"])})


def rec_two_mixed0(b, c, block_info=None):
    """2-d b, 1-d c aligned with b's last axis; drop_axis=0."""
    _rec_mixed(b, c, block_info)
    return b.sum(axis=0) + c


def rec_two_mixed1(b, c, block_info=None):
    """2-d b, 1-d c aligned with b's last axis; drop_axis=1 (c is contracted)."""
    _rec_mixed(b, c, block_info)
    return b.sum(axis=1) + c.sum()


def rec_newaxis(b, block_info=None):
    if block_info is not None and getattr(b, "size", 0):
        i0 = block_info[0]
        LOG.append({"kind": "info", "loc": tuple(i0["chunk-location"]), "aloc": [tuple(t) for t in i0["array-location"]], "cshape": _cs(i0), "nchunks": tuple(i0["num-chunks"]), "shape": tuple(i0["shape"]), "bshape": tuple(b.shape)})
    return b[None]


def rec_dropaxis(b, block_info=None):
    if block_info is not None and getattr(b, "size", 0):
        i0 = block_info[0]
        LOG.append({"kind": "info", "loc": tuple(i0["chunk-location"]), "aloc": [tuple(t) for t in i0["array-location"]], "cshape": _cs(i0), "nchunks": tuple(i0["num-chunks"]), "shape": tuple(i0["shape"]), "bshape": tuple(b.shape)})
    return b.sum(axis=0)


# ---- C29: recording source and recording user functions
TOUCH = []


class RecSource:
    """Array-like that records every data access (C29)."""

    def __init__(self, a):
        self.a = a
        self.shape, self.dtype, self.ndim = a.shape, a.dtype, a.ndim

    def __getitem__(self, idx):
        r = self.a[idx]
        if np.size(r) > 0:
            TOUCH.append(("getitem", repr(idx)))
        return r

    def __array__(self, dtype=None, copy=None):
        TOUCH.append(("__array__",))
        return np.asarray(self.a, dtype=dtype)

    def __len__(self):
        return self.shape[0]


def _synthetic(b):
    """dtype/meta inference probes a function with one-element fake data
    (np.ones / np.zeros of shape (1,) * ndim); anything else non-empty is real data."""
    try:
        arr = np.asarray(b)
        if arr.ndim == 0:
            # a 0-d meta necessarily has one element, and np.empty(()) leaves it
            # uninitialised (it can even hold stale bytes of earlier results)
            return True
        # one element, holding 0 or 1 (zeros_like / ones_like fake data); the
        # recording sources hold values >= 10
        if arr.dtype.kind == "f":
            return arr.size <= 1 and bool(np.all((arr == 1) | (arr == 0) | np.isnan(arr)))
        return arr.size <= 1 and bool(np.all((arr == 1) | (arr == 0)))
    except Exception:
        return False


def touch(b, *a, **k):
    if getattr(b, "size", 0) > 0:
        TOUCH.append(("userfn", "touch" + ("-probe" if _synthetic(b) else ""), tuple(getattr(b, "shape", ())), repr(np.asarray(b).ravel()[:3].tolist()), type(b).__name__))
    return b


# one indexer object shared by every build of the op that uses it
IDX6 = [[1, 0, 2], [3, 5], [4]]


def sum0(b):
    return np.sum(b, axis=0)


def sum_last(b):
    return np.sum(b, axis=-1)


def ptp1(v):
    return np.max(v) - np.min(v)


def mb_or_np(m, v):
    """v passed through a recording block function (dask) / unchanged (NumPy)."""
    if m is np:
        return v
    return m.map_blocks(touch, v, dtype=v.dtype, meta=np.empty((0,) * v.ndim, dtype=v.dtype))


def touch_chunk(x, axis=None, keepdims=False):
    if getattr(x, "size", 0) > 0:
        TOUCH.append(("userfn", "touch_chunk" + ("-probe" if _synthetic(x) else ""), tuple(x.shape)))
    return np.sum(x, axis=axis, keepdims=keepdims)


def touch_agg(x, axis=None, keepdims=False):
    if getattr(x, "size", 0) > 0:
        TOUCH.append(("userfn", "touch_agg" + ("-probe" if _synthetic(x) else ""), tuple(np.shape(x))))
    return np.sum(x, axis=axis, keepdims=keepdims)
