"""The op alphabet (DESIGN §3.3).

An op is a source template evaluated twice: with ``m = dask_array`` on dask
collections, with ``m = numpy`` on the reference values.  ``nsrc`` overrides
the NumPy side where the APIs differ (``rechunk`` is the identity there).
Templates use ``{0}``, ``{1}`` for operands.  ``cond`` is an expression over
the NumPy operand values ``a0``/``a1`` that says whether the op applies;
outside it the op is not generated at all.
"""

from __future__ import annotations

import numpy as np

from mc import userfns

uf = userfns
_ENV = {"np": np, "uf": userfns}


class Op:
    __slots__ = ("name", "arity", "dsrc", "nsrc", "exact", "dtype", "cond", "fam", "_d", "_n", "_c", "rewrite")

    def __init__(self, name, dsrc, nsrc=None, arity=1, exact=True, dtype=True, cond=None, fam="", rewrite=True):
        self.name = name
        self.arity = arity
        self.dsrc = dsrc
        self.nsrc = nsrc if nsrc is not None else dsrc
        self.exact = exact
        self.dtype = dtype
        self.cond = cond
        self.fam = fam
        self.rewrite = rewrite
        args = ", ".join(f"a{i}" for i in range(arity))
        names = [f"a{i}" for i in range(arity)]
        self._d = eval(f"lambda m, {args}: " + self.dsrc.format(*names, m="m"), dict(_ENV))
        self._n = eval(f"lambda m, {args}: " + self.nsrc.format(*names, m="m"), dict(_ENV))
        self._c = eval(f"lambda {args}: " + cond, dict(_ENV)) if cond else None

    def applies(self, *nvals):
        if self._c is None:
            return True
        try:
            return bool(self._c(*nvals))
        except Exception:
            return False

    def dask(self, da, *xs):
        return self._d(da, *xs)

    def numpy(self, *xs):
        return self._n(np, *xs)

    def src(self, names, dask=True):
        t = self.dsrc if dask else self.nsrc
        return t.format(*names, m="da" if dask else "np")


def _mk():
    ops = []

    def add(*a, **k):
        ops.append(Op(*a, **k))

    D1 = "a0.ndim>=1"
    D2 = "a0.ndim>=2"
    NE = "a0.ndim>=1 and a0.shape[0]>=1"

    # ---- basic indexing (parameter variants of the same slice family)
    add("sl_1_4", "{0}[1:4]", cond=D1, fam="slice")
    add("sl_1_3", "{0}[1:3]", cond=D1, fam="slice")
    add("sl_2_", "{0}[2:]", cond=D1, fam="slice")
    add("sl__1", "{0}[:1]", cond=D1, fam="slice")
    add("sl_m2", "{0}[-2:]", cond=D1, fam="slice")
    add("sl_s2", "{0}[::2]", cond=D1, fam="slice")
    add("sl_1s2", "{0}[1::2]", cond=D1, fam="slice")
    add("sl_rev", "{0}[::-1]", cond=D1, fam="slice")
    add("sl_rev2", "{0}[-2::-2]", cond=D1, fam="slice")
    add("sl_empty", "{0}[3:3]", cond=D1, fam="slice")
    add("ix_1", "{0}[1]", cond="a0.ndim>=1 and a0.shape[0]>=2", fam="slice")
    add("ix_m1", "{0}[-1]", cond=NE, fam="slice")
    add("ix_none", "{0}[None]", fam="slice")
    add("ix_ell_none", "{0}[..., None]", fam="slice")
    add("sl2_a", "{0}[:, 1:3]", cond=D2, fam="slice")
    add("sl2_b", "{0}[1:, ::2]", cond=D2, fam="slice")
    add("sl2_c", "{0}[:, 0]", cond="a0.ndim>=2 and a0.shape[1]>=1", fam="slice")
    add("sl2_d", "{0}[::-1, -1:]", cond=D2, fam="slice")
    add("sl2_e", "{0}[..., 1:]", cond=D2, fam="slice")
    add("tk_201", "{0}[[2, 0, 1]]", cond="a0.ndim>=1 and a0.shape[0]>=3", fam="take")
    add("tk_2302", "{0}[[2, 3, 0, 2]]", cond="a0.ndim>=1 and a0.shape[0]>=4", fam="take")
    # Array.shuffle with grouped indexers (groups larger than one element); the
    # second op shares one module-level indexer list across all builds
    add("shuffle_groups", "{0}.shuffle([[2, 0, 1], [4, 3], [5]], axis=0)", "{0}[[2, 0, 1, 4, 3, 5]]", cond="a0.ndim>=1 and a0.shape[0]==6", fam="take")
    add("shuffle_shared_idx", "{0}.shuffle(uf.IDX6, axis=0)", "{0}[[1, 0, 2, 3, 5, 4]]", cond="a0.ndim>=1 and a0.shape[0]==6", fam="take")
    add("shuffle_groups3", "{0}.shuffle([[2, 0], [1]], axis=0)", "{0}[[2, 0, 1]]", cond="a0.ndim>=1 and a0.shape[0]==3", fam="take")
    add("tk_00", "{0}[[0, 0]]", cond=NE, fam="take")
    add("tk_m1_0", "{0}[[-1, 0]]", cond=NE, fam="take")
    add("tk2_ax1", "{0}[:, [1, 0]]", cond="a0.ndim>=2 and a0.shape[1]>=2", fam="take")
    add("take_fn", "{m}.take({0}, [1, 0], axis=0)", cond="a0.ndim>=1 and a0.shape[0]>=2", fam="take")

    # ---- elemwise
    add("add1", "{0} + 1", fam="elem")
    add("add2", "{0} + 2", fam="elem")
    add("mul2", "{0} * 2", fam="elem")
    add("neg", "-{0}", fam="elem", cond="a0.dtype!=bool")
    add("sin", "{m}.sin({0})", exact=False, fam="elem")
    add("sqrtabs", "{m}.sqrt({m}.abs({0}))", exact=False, fam="elem")
    add("gt12", "{0} > 12", fam="elem")
    add("as_i8", "{0}.astype('i8')", fam="elem")
    add("as_f4", "{0}.astype('f4')", fam="elem")
    add("where_gt", "{m}.where({0} > 12, {0}, 0)", fam="elem")
    add("clip", "{m}.clip({0}, 11, 13)", fam="elem")
    add("add_0d", "{0} + {0}.sum()", exact=False, fam="elem")
    add("add_row", "{0} + {0}[:1]", cond=D1, fam="elem")
    add("add_selfT", "{0} + {0}.T", cond="a0.ndim==2 and a0.shape[0]==a0.shape[1]", fam="elem")
    add("mul_col", "{0} * {0}[:, :1]", cond=D2, fam="elem")
    add("ufunc_where", "{m}.add({0}, 1, where={0} > 12, out=None)", rewrite=False, cond="False", fam="elem")  # out=None+where yields uninit in numpy

    # creation leaves under an elemwise (slices/rechunks above get pushed into them)
    add("plus_arange", "{0} + {m}.arange({0}.shape[0], chunks=2)", "{0} + {m}.arange({0}.shape[0])", cond="a0.ndim==1 and a0.dtype.kind in 'fi'", fam="elem")
    add("plus_ones", "{0} + {m}.ones({0}.shape, chunks=2)", "{0} + {m}.ones({0}.shape)", cond="a0.ndim>=1 and a0.dtype.kind in 'fi'", fam="elem")
    add("plus_linspace", "{0} + {m}.linspace(0, 1, {0}.shape[0], chunks=3)", "{0} + {m}.linspace(0, 1, {0}.shape[0])", exact=False, cond="a0.ndim==1 and a0.shape[0]>=2 and a0.dtype.kind=='f'", fam="elem")
    add("plus_full", "{0} * {m}.full({0}.shape, 2.0, chunks=2)", "{0} * {m}.full({0}.shape, 2.0)", cond="a0.ndim>=1 and a0.dtype.kind=='f'", fam="elem")

    # ---- axes
    add("T", "{0}.T", fam="axes")
    add("tr_10", "{m}.transpose({0}, (1, 0))", cond="a0.ndim==2", fam="axes")
    add("tr_201", "{m}.transpose({0}, (2, 0, 1))", cond="a0.ndim==3", fam="axes")
    add("swap01", "{m}.swapaxes({0}, 0, -1)", cond=D1, fam="axes")
    add("move0m1", "{m}.moveaxis({0}, 0, -1)", cond=D1, fam="axes")

    # ---- reshape family
    add("ravel", "{0}.ravel()", fam="reshape")
    add("rs_m1", "{0}.reshape(-1)", fam="reshape")
    add("rs_2_m1", "{0}.reshape(2, -1)", cond="a0.size%2==0 and a0.size>0", fam="reshape")
    add("rs_3_m1", "{0}.reshape(3, -1)", cond="a0.size%3==0 and a0.size>0", fam="reshape")
    add("rs_m1_2", "{0}.reshape(-1, 2)", cond="a0.size%2==0 and a0.size>0", fam="reshape")
    add("exp0", "{m}.expand_dims({0}, 0)", fam="reshape")
    add("expm1", "{m}.expand_dims({0}, -1)", fam="reshape")
    add("squeeze", "{m}.squeeze({0})", fam="reshape")

    # ---- flip / roll
    add("flip", "{m}.flip({0})", fam="flip")
    add("flip0", "{m}.flip({0}, 0)", cond=D1, fam="flip")
    add("roll1", "{m}.roll({0}, 1)", fam="flip")
    add("rollm2_0", "{m}.roll({0}, -2, axis=0)", cond=D1, fam="flip")
    add("rot90", "{m}.rot90({0})", cond=D2, fam="flip")

    # ---- stacking
    add("cat_self", "{m}.concatenate([{0}, {0}])", cond=D1, fam="stack")
    add("cat_self_m1", "{m}.concatenate([{0}, {0} + 1], axis=-1)", cond=D1, fam="stack")
    add("cat_parts", "{m}.concatenate([{0}[:1], {0}[1:] * 2])", cond=D1, fam="stack")
    add("cat3", "{m}.concatenate([{0}[2:], {0}, {0}[:2]])", cond=D1, fam="stack")
    add("stack0", "{m}.stack([{0}, {0} + 1])", fam="stack")
    add("stackm1", "{m}.stack([{0}, {0} * 2], axis=-1)", fam="stack")
    add("hstack", "{m}.hstack([{0}, {0}])", cond=D1, fam="stack")
    add("vstack", "{m}.vstack([{0}, {0}])", cond=D1, fam="stack")
    add("tile2", "{m}.tile({0}, 2)", cond=D1, fam="stack", rewrite=False)
    add("repeat2", "{m}.repeat({0}, 2, axis=0)", cond=D1, fam="stack", rewrite=False)
    add("pad1", "{m}.pad({0}, 1)", cond=D1, fam="stack", rewrite=False)
    add("pad_edge", "{m}.pad({0}, 1, mode='edge')", cond=NE + " and a0.size>0", fam="stack", rewrite=False)
    add("pad_reflect", "{m}.pad({0}, (1, 0), mode='reflect')", cond="a0.ndim>=1 and min(a0.shape)>=2", fam="stack", rewrite=False)
    add("bcast", "{m}.broadcast_to({0}, (2,) + {0}.shape)", fam="stack")

    # ---- rechunk (identity on the NumPy side)
    add("rc1", "{0}.rechunk(1)", "{0}", cond=D1, fam="rechunk")
    add("rc2", "{0}.rechunk(2)", "{0}", cond=D1, fam="rechunk")
    add("rc3", "{0}.rechunk(3)", "{0}", cond=D1, fam="rechunk")
    add("rc_all", "{0}.rechunk(-1)", "{0}", cond=D1, fam="rechunk")
    add("rc_d0_2", "{0}.rechunk({{0: 2}})", "{0}", cond=D1, fam="rechunk")
    add("rc_dm1_all", "{0}.rechunk({{{0}.ndim - 1: -1}})", "{0}", cond=D1, fam="rechunk")
    add("rc_2_1", "{0}.rechunk((2, 1))", "{0}", cond="a0.ndim==2", fam="rechunk")
    add("rc_bal", "{0}.rechunk(4, balance=True)", "{0}", cond=D1, fam="rechunk")
    add("rc_tasks", "{0}.rechunk(2, method='tasks')", "{0}", cond=D1, fam="rechunk")

    # ---- reductions
    Z = "a0.size>0"
    add("sum", "{0}.sum()", exact=False, fam="red")
    add("sum0", "{0}.sum(axis=0)", exact=False, cond=D1, fam="red")
    add("summ1", "{0}.sum(axis=-1)", exact=False, cond=D1, fam="red")
    add("sum0k", "{0}.sum(axis=0, keepdims=True)", exact=False, cond=D1, fam="red")
    add("sum0_se2", "{m}.sum({0}, axis=0, split_every=2)", "{m}.sum({0}, axis=0)", exact=False, cond=D1, fam="red")
    add("sum_se2", "{m}.sum({0}, split_every=2)", "{m}.sum({0})", exact=False, fam="red")
    add("mean0", "{0}.mean(axis=0)", exact=False, cond=D1 + " and " + Z, fam="red")
    add("mean", "{0}.mean()", exact=False, cond=Z, fam="red")
    add("mean_se2", "{m}.mean({0}, axis=-1, split_every=2)", "{m}.mean({0}, axis=-1)", exact=False, cond=D1 + " and " + Z, fam="red")
    add("maxm1", "{0}.max(axis=-1)", cond=D1 + " and " + Z, fam="red")
    add("min", "{0}.min()", cond=Z, fam="red")
    add("min0k", "{0}.min(axis=0, keepdims=True)", cond=D1 + " and " + Z, fam="red")
    add("prod0", "{0}.prod(axis=0)", exact=False, cond=D1, fam="red")
    add("any0", "({0} > 12).any(axis=0)", cond=D1, fam="red")
    add("all", "({0} > 12).all()", fam="red")
    add("std0", "{0}.std(axis=0)", exact=False, cond=D1 + " and " + Z, fam="red")
    add("var_dd1", "{0}.var(ddof=1)", exact=False, cond="a0.size>1", fam="red")
    add("argmax0", "{0}.argmax(axis=0)", cond=D1 + " and " + Z, fam="red")
    add("argmin", "{0}.argmin()", cond=Z, fam="red")
    add("argmaxm1_se2", "{m}.argmax({0}, axis=-1, split_every=2)", "{m}.argmax({0}, axis=-1)", cond=D1 + " and " + Z, fam="red")
    add("nansum0", "{m}.nansum({0}, axis=0)", exact=False, cond=D1, fam="red")
    add("nanmax", "{m}.nanmax({0})", cond=Z, fam="red")
    add("cnz0", "{m}.count_nonzero({0} > 12, axis=0)", cond=D1, fam="red")
    add("ptp0", "{m}.ptp({0}, axis=0)", cond=D1 + " and " + Z, fam="red")
    add("topk2", "{m}.topk({0}, 2)", "uf.np_topk({0}, 2)", cond="a0.ndim>=1 and a0.shape[-1]>=2", fam="red")
    add("topkm2_0", "{m}.topk({0}, -2, axis=0)", "uf.np_topk({0}, -2, axis=0)", cond="a0.ndim>=1 and a0.shape[0]>=2", fam="red")
    add("moment3", "{m}.moment({0}, 3, axis=0)", "uf.np_moment({0}, 3, axis=0)", exact=False, cond=D1 + " and " + Z + " and a0.dtype.kind!='c'", fam="red", rewrite=False)

    # ---- scans
    add("cumsum0", "{m}.cumsum({0}, axis=0)", exact=False, cond=D1, fam="scan")
    add("cumsumm1_bl", "{m}.cumsum({0}, axis=-1, method='blelloch')", "{m}.cumsum({0}, axis=-1)", exact=False, cond=D1, fam="scan")
    add("cumprod0", "{m}.cumprod({0}, axis=0)", exact=False, cond=D1, fam="scan")
    add("nancumsum0", "{m}.nancumsum({0}, axis=0)", exact=False, cond=D1, fam="scan")

    # ---- windows
    W2 = "a0.ndim>=1 and a0.shape[0]>=2"
    W3 = "a0.ndim>=1 and a0.shape[0]>=3"
    add("swv2", "{m}.sliding_window_view({0}, 2, axis=0)", "uf.np_swv({0}, 2, 0)", cond=W2, fam="window")
    add("swv3", "{m}.sliding_window_view({0}, 3, axis=0)", "uf.np_swv({0}, 3, 0)", cond=W3, fam="window")
    add("swv2_sum", "{m}.sliding_window_view({0}, 2, axis=0).sum(axis=-1)", "uf.np_swv({0}, 2, 0).sum(axis=-1)", exact=False, cond=W2, fam="window")
    add("swv3_sum", "{m}.sliding_window_view({0}, 3, axis=0).sum(axis=-1)", "uf.np_swv({0}, 3, 0).sum(axis=-1)", exact=False, cond=W3, fam="window")
    # explicit narrow result dtypes (the native window kernels accumulate wider)
    add("swv3_sum_i4", "{m}.sliding_window_view({0}, 3, axis=0).sum(axis=-1, dtype='int32')", "uf.np_swv({0}, 3, 0).sum(axis=-1, dtype='int32')", cond=W3 + " and a0.dtype.kind=='i'", fam="window")
    add("swv2_prod_i2", "{m}.sliding_window_view({0}, 2, axis=0).prod(axis=-1, dtype='int16')", "uf.np_swv({0}, 2, 0).prod(axis=-1, dtype='int16')", cond=W2 + " and a0.dtype.kind=='i'", fam="window")
    add("swv3_sum_f4", "{m}.sliding_window_view({0}, 3, axis=0).sum(axis=-1, dtype='float32')", "uf.np_swv({0}, 3, 0).sum(axis=-1, dtype='float32')", exact=False, cond=W3 + " and a0.dtype.kind=='f'", fam="window")
    add("swv3_max", "{m}.sliding_window_view({0}, 3, axis=0).max(axis=-1)", "uf.np_swv({0}, 3, 0).max(axis=-1)", cond=W3, fam="window")
    add("swv2_mean", "{m}.sliding_window_view({0}, 2, axis=0).mean(axis=-1)", "uf.np_swv({0}, 2, 0).mean(axis=-1)", exact=False, cond=W2, fam="window")
    add("swvm1_3_min", "{m}.sliding_window_view({0}, 3, axis=-1).min(axis=-1)", "uf.np_swv({0}, 3, -1).min(axis=-1)", cond="a0.ndim>=1 and a0.shape[-1]>=3", fam="window")
    add("diff", "{m}.diff({0}, axis=0)", cond=NE, fam="window")
    add("diff2", "{m}.diff({0}, n=2, axis=-1)", cond="a0.ndim>=1 and a0.shape[-1]>=1", fam="window")
    add("ovl_reflect", "{m}.map_overlap(uf.ov_sum3, {0}, depth={{0: 1}}, boundary='reflect', dtype={0}.dtype)", "uf.np_ov_sum3({0}, 'reflect')", exact=False, cond=NE + " and a0.dtype.kind=='f'", fam="window")
    add("ovl_periodic", "{m}.map_overlap(uf.ov_sum3, {0}, depth={{0: 1}}, boundary='periodic', dtype={0}.dtype)", "uf.np_ov_sum3({0}, 'periodic')", exact=False, cond=NE + " and a0.dtype.kind=='f'", fam="window")
    add("ovl_nearest", "{m}.map_overlap(uf.ov_sum3, {0}, depth={{0: 1}}, boundary='nearest', dtype={0}.dtype)", "uf.np_ov_sum3({0}, 'nearest')", exact=False, cond=NE + " and a0.dtype.kind=='f'", fam="window")
    add("ovl_const", "{m}.map_overlap(uf.ov_sum3, {0}, depth={{0: 1}}, boundary=0.0, dtype={0}.dtype)", "uf.np_ov_sum3({0}, 0.0)", exact=False, cond=NE + " and a0.dtype.kind=='f'", fam="window")

    add("ovl_periodic_d2", "{m}.map_overlap(uf.ov_sumd, {0}, depth={{0: 2}}, boundary='periodic', dtype={0}.dtype, d=2)", "uf.np_ov_sumd({0}, 2, 'periodic')", exact=False, cond="a0.ndim>=1 and a0.shape[0]>=2 and a0.dtype.kind=='f'", fam="window")
    add("ovl_reflect_d2", "{m}.map_overlap(uf.ov_sumd, {0}, depth={{0: 2}}, boundary='reflect', dtype={0}.dtype, d=2)", "uf.np_ov_sumd({0}, 2, 'reflect')", exact=False, cond="a0.ndim>=1 and a0.shape[0]>=2 and a0.dtype.kind=='f'", fam="window")
    add("ovl_none_d1", "{m}.map_overlap(uf.ov_sumd, {0}, depth={{0: 1}}, boundary='none', dtype={0}.dtype, d=1)", "uf.np_ov_sumd({0}, 1, 'none')", exact=False, cond=NE + " and a0.dtype.kind=='f'", fam="window")

    add("bn_move_sum3", "{m}.map_overlap(__import__('bottleneck').move_sum, {0}, depth={{0: (2, 0)}}, boundary='none', window=3, min_count=1, axis=0, dtype={0}.dtype)", "__import__('bottleneck').move_sum({0}, window=3, min_count=1, axis=0)", exact=False, cond="a0.ndim>=1 and a0.shape[0]>=3 and a0.dtype==np.float64", fam="window")
    add("bn_move_max2", "{m}.map_overlap(__import__('bottleneck').move_max, {0}, depth={{0: (1, 0)}}, boundary='none', window=2, axis=0, dtype={0}.dtype)", "__import__('bottleneck').move_max({0}, window=2, axis=0)", exact=False, cond="a0.ndim>=1 and a0.shape[0]>=2 and a0.dtype==np.float64", fam="window")

    # ---- map_blocks
    add("mb_double", "{m}.map_blocks(uf.ub_double, {0}, dtype={0}.dtype)", "uf.ub_double({0})", cond="a0.dtype!=bool", fam="mapblocks")
    add("mb_neg", "{0}.map_blocks(uf.ub_neg)", "uf.ub_neg({0})", cond="a0.dtype!=bool", fam="mapblocks")

    # block-layout dependent: the reference is computed per block of the layout
    # advertised when the call was made (uf.CH = operand chunks)
    add("mb_demean", "{m}.map_blocks(uf.demean0, {0}, dtype='f8')", "uf.np_blockmap(uf.demean0, {0}, uf.CH[0])", exact=False, cond="a0.dtype.kind=='f' and a0.ndim>=1", fam="mapblocks")
    add("mb_demean_chunks", "{m}.map_blocks(uf.demean0, {0}, dtype='f8', chunks={0}.chunks)", "uf.np_blockmap(uf.demean0, {0}, uf.CH[0])", exact=False, cond="a0.dtype.kind=='f' and a0.ndim>=1", fam="mapblocks")
    add("blocks0", "{0}.blocks[0]", "uf.np_block_at({0}, uf.CH[0], 0)", cond=NE, fam="blocks")
    add("blocks_m1", "{0}.blocks[-1]", "uf.np_block_at({0}, uf.CH[0], -1)", cond=NE, fam="blocks")
    add("blocks_rev", "{0}.blocks[::-1]", "uf.np_block_at({0}, uf.CH[0], slice(None, None, -1))", cond=NE, fam="blocks")
    add("outer_sincos", "{m}.tensordot({m}.sin({m}.cos({0})), {m}.sin({m}.cos({0})), axes=0)", exact=False, cond="a0.ndim==1", fam="linalg")

    # ---- linalg-ish / routines (not rewrite-active)
    add("outer", "{m}.outer({0}, {0})", cond="a0.ndim==1", fam="linalg", rewrite=False)
    add("dot_T", "{m}.dot({0}, {0}.T)", exact=False, cond="a0.ndim==2", fam="linalg", rewrite=False)
    add("matmul_T", "{m}.matmul({0}.T, {0})", exact=False, cond="a0.ndim==2", fam="linalg", rewrite=False)
    add("tdot", "{m}.tensordot({0}, {0}, axes=([0], [0]))", exact=False, cond=D1, fam="linalg", rewrite=False)
    add("einsum_tr", "{m}.einsum('ij->ji', {0})", cond="a0.ndim==2", fam="linalg", rewrite=False)
    add("einsum_sum", "{m}.einsum('ij,ij->i', {0}, {0})", exact=False, cond="a0.ndim==2", fam="linalg", rewrite=False)
    add("einsum_all", "{m}.einsum('ij,ij->', {0}, {0})", exact=False, cond="a0.ndim==2", fam="linalg", rewrite=False)
    add("einsum_mm_all", "{m}.einsum('ij,kj->', {0}, {0})", exact=False, cond="a0.ndim==2", fam="linalg", rewrite=False)
    # nodes whose generic graph carries inline subtasks
    add("median0", "{m}.median({0}, axis=0)", exact=False, cond="a0.ndim>=1 and a0.shape[0]>=1 and a0.dtype.kind=='f'", fam="routine", rewrite=False)
    add("mb_dropaxis_sum", "{m}.map_blocks(uf.sum0, {0}, drop_axis=0, dtype={0}.dtype)", "{0}.sum(axis=0)", exact=False, cond="a0.ndim==2 and a0.dtype.kind=='f'", fam="routine", rewrite=False)
    add("bw_concat_sum", "{m}.blockwise(uf.sum_last, tuple(range({0}.ndim - 1)), {0}, tuple(range({0}.ndim)), concatenate=True, dtype={0}.dtype)", "{0}.sum(axis=-1)", exact=False, cond="a0.ndim>=1 and a0.dtype.kind=='f'", fam="routine", rewrite=False)
    add("apply_along0", "{m}.apply_along_axis(uf.ptp1, 0, {0}, dtype={0}.dtype, shape=())", "np.apply_along_axis(uf.ptp1, 0, {0})", exact=False, cond="a0.ndim>=1 and a0.shape[0]>=1 and a0.dtype.kind=='f'", fam="routine", rewrite=False)
    add("plus_ones_same", "{0} + {m}.ones({0}.shape, chunks={0}.chunks)", "{0} + {m}.ones({0}.shape)", cond="a0.ndim>=1 and a0.dtype.kind in 'fi'", fam="elem", rewrite=False)
    add("mul_full_same", "{0} * {m}.full({0}.shape, 2.0, chunks={0}.chunks)", "{0} * {m}.full({0}.shape, 2.0)", cond="a0.ndim>=1 and a0.dtype.kind=='f'", fam="elem", rewrite=False)
    add("diagonal", "{m}.diagonal({0})", cond="a0.ndim==2", fam="routine", rewrite=False)
    add("diagonal_off1", "{m}.diagonal({0}, offset=1)", cond="a0.ndim==2 and a0.shape[1]>=2", fam="routine", rewrite=False)
    add("trace", "{m}.trace({0})", cond="a0.ndim==2", exact=False, fam="routine", rewrite=False)
    add("vindex_pts", "{0}.vindex[[0, 1, 0], [1, 0, 0]]", "{0}[[0, 1, 0], [1, 0, 0]]", cond="a0.ndim==2 and a0.shape[0]>=2 and a0.shape[1]>=2", fam="routine", rewrite=False)
    add("sq_plus_T", "{0} * {0} + {0}.T", cond="a0.ndim==2 and a0.shape[0]==a0.shape[1]", fam="routine", rewrite=False)
    add("where_gt_T", "{m}.where({0} > {0}.T, {0}, {0}.T)", cond="a0.ndim==2 and a0.shape[0]==a0.shape[1]", fam="routine", rewrite=False)
    add("sub_T_mul", "({0} - {0}.T) * {0}", cond="a0.ndim==2 and a0.shape[0]==a0.shape[1]", fam="routine", rewrite=False)
    # an operand of fixed known length combined with an array whose length may be unknown
    for _k in (1, 2, 3, 4):
        add(f"plus_np_len{_k}", f"{{0}} + np.arange({_k}.0) * 100", cond=f"a0.ndim==1 and a0.shape[0]=={_k}", fam="elemwise", rewrite=False)
        add(f"plus_da_len{_k}", f"{{0}} + {{m}}.asarray(np.arange({_k}.0) * 100)", cond=f"a0.ndim==1 and a0.shape[0]=={_k}", fam="elemwise", rewrite=False)
    add("cat_known", "{m}.concatenate([{0}, {m}.asarray(np.arange(3.0) + 500)])", cond="a0.ndim==1", fam="stack", rewrite=False)
    add("cat_known_first", "{m}.concatenate([{m}.asarray(np.arange(3.0) + 500), {0}])", cond="a0.ndim==1", fam="stack", rewrite=False)
    add("isin", "{m}.isin({0}, [11, 13, 15])", fam="routine", rewrite=False)
    add("round", "{m}.round({0} / 3, 1)", exact=False, fam="routine", rewrite=False)
    add("tril", "{m}.tril({0})", cond=D2, fam="routine", rewrite=False)
    add("diag", "{m}.diag({0})", cond="a0.ndim in (1,2)", fam="routine", rewrite=False)
    add("searchsorted", "{m}.searchsorted({m}.sort({0}) if '{m}'=='np' else {0}, {0}[:2] + 0.5)", cond="False", fam="routine", rewrite=False)
    add("digitize", "{m}.digitize({0}, np.array([11.0, 13.0]))", fam="routine", rewrite=False)
    add("average_w", "{m}.average({0}, axis=0, weights={0})", exact=False, cond=NE + " and a0.size>0", fam="red", rewrite=False)

    # ---- in-place style operations (setitem, out=, where=) as pure functions
    add("set_sl", "uf.set_slice({m}, {0}, slice(1, 3), -1.0)", cond=NE + " and a0.dtype.kind=='f'", fam="inplace", rewrite=False)
    add("set_step", "uf.set_slice({m}, {0}, slice(None, None, 2), -2.0)", cond=NE + " and a0.dtype.kind=='f'", fam="inplace", rewrite=False)
    add("set_step_arr", "uf.set_slice({m}, {0}, slice(1, None, 2), np.arange(len(range(1, {0}.shape[0], 2)), dtype=float).reshape((-1,) + (1,) * ({0}.ndim - 1)) * np.ones({0}.shape[1:]) + 100)", cond=NE + " and a0.dtype.kind=='f' and a0.shape[0]>=2", fam="inplace", rewrite=False)
    add("set_step3_arr", "uf.set_slice({m}, {0}, slice(0, None, 3), np.arange(len(range(0, {0}.shape[0], 3)), dtype=float).reshape((-1,) + (1,) * ({0}.ndim - 1)) * np.ones({0}.shape[1:]) + 200)", cond=NE + " and a0.dtype.kind=='f'", fam="inplace", rewrite=False)
    add("set_daskval", "uf.set_slice({m}, {0}, slice(0, 2), {0}[2:4] * 3)", cond="a0.ndim>=1 and a0.shape[0]>=4", fam="inplace", rewrite=False)
    add("set_daskval_mb", "uf.set_slice({m}, {0}, slice(0, 2), uf.mb_or_np({m}, {0}[2:4]))", cond="a0.ndim>=1 and a0.shape[0]>=4", fam="inplace", rewrite=False)
    add("set_int", "uf.set_slice({m}, {0}, -1, 7.0)", cond=NE + " and a0.dtype.kind=='f'", fam="inplace", rewrite=False)
    add("set_list", "uf.set_slice({m}, {0}, [0, -1], 5.0)", cond=NE + " and a0.dtype.kind=='f'", fam="inplace", rewrite=False)
    add("set_mask", "uf.set_slice({m}, {0}, {0} > 12, 0.0)", cond=NE + " and a0.dtype.kind=='f' and a0.ndim==1", fam="inplace", rewrite=False)
    add("set_masked", "uf.set_masked({m}, {0}, slice(1, 3))", cond=NE + " and a0.dtype.kind=='f'", fam="inplace", rewrite=False)
    add("add_where_out", "uf.add_where_out({m}, {0})", cond="a0.dtype.kind=='f'", fam="inplace", rewrite=False)
    add("add_where_out_self", "uf.add_where_out_self({m}, {0})", cond="a0.dtype.kind=='f'", fam="inplace", rewrite=False)
    add("sin_out_self", "uf.sin_out_self({m}, {0})", exact=False, cond="a0.dtype.kind=='f'", fam="inplace", rewrite=False)

    # ---- recording user functions (C29)
    add("mb_touch", "{m}.map_blocks(uf.touch, {0}, dtype={0}.dtype)", "{0}", fam="touch", rewrite=False)
    add("mb_touch_nodtype", "{m}.map_blocks(uf.touch, {0})", "{0}", fam="touch", rewrite=False)
    add("mo_touch", "{m}.map_overlap(uf.touch, {0}, depth=1, boundary='reflect', dtype={0}.dtype)", "{0}", cond="a0.ndim>=1 and min(a0.shape)>=1", fam="touch", rewrite=False)
    add("mo_touch_nodtype", "{m}.map_overlap(uf.touch, {0}, depth=1, boundary='none')", "{0}", cond="a0.ndim>=1 and min(a0.shape)>=1", fam="touch", rewrite=False)
    add("bw_touch", "{m}.blockwise(uf.touch, tuple(range({0}.ndim)), {0}, tuple(range({0}.ndim)), dtype={0}.dtype)", "{0}", fam="touch", rewrite=False)
    add("red_touch", "{m}.reduction({0}, uf.touch_chunk, uf.touch_agg, axis=0, dtype={0}.dtype)", "{0}.sum(axis=0)", exact=False, cond="a0.ndim>=1 and a0.dtype.kind=='f'", fam="touch", rewrite=False)

    # ---- more parameter-variant siblings (tokenizer / hand-built-name collisions)
    add("sum_se3", "{m}.sum({0}, split_every=3)", "{m}.sum({0})", exact=False, fam="red", rewrite=False)
    add("sum_se4", "{m}.sum({0}, split_every=4)", "{m}.sum({0})", exact=False, fam="red", rewrite=False)
    add("wred_a", "{m}.reduction({0}, uf.w_chunk, uf.w_agg, axis=0, dtype='f8', weights=np.arange({0}.shape[0]) + 1.0)", "({0}.T * (np.arange({0}.shape[0]) + 1.0)).T.sum(axis=0)", exact=False, cond=NE + " and a0.dtype.kind=='f' and a0.ndim==1", fam="red", rewrite=False)
    add("wred_b", "{m}.reduction({0}, uf.w_chunk, uf.w_agg, axis=0, dtype='f8', weights=np.arange({0}.shape[0]) * 2.0)", "({0}.T * (np.arange({0}.shape[0]) * 2.0)).T.sum(axis=0)", exact=False, cond=NE + " and a0.dtype.kind=='f' and a0.ndim==1", fam="red", rewrite=False)
    add("mbk_a", "{m}.map_blocks(uf.mbk, {0}, k=2.0, dtype={0}.dtype)", "uf.mbk({0}, 2.0)", cond="a0.dtype.kind=='f'", fam="mapblocks", rewrite=False)
    add("mbk_b", "{m}.map_blocks(uf.mbk, {0}, k=3.0, dtype={0}.dtype)", "uf.mbk({0}, 3.0)", cond="a0.dtype.kind=='f'", fam="mapblocks", rewrite=False)
    for _rn, _rs in uf.RANDOM_SRC.items():
        add(_rn, _rs.replace("da.", "{m}.").replace("{shape}", "{0}.shape"), "uf.clean_ref('" + _rn + "', {0}.shape)", cond="a0.shape in uf.RANDOM_SHAPES and a0.dtype.kind=='f'", fam="random", rewrite=False, exact=True)

    # ---- binary ops over two pool members
    add("b_add", "{0} + {1}", arity=2, fam="bin")
    add("b_mul", "{0} * {1}", arity=2, fam="bin")
    add("b_max", "{m}.maximum({0}, {1})", arity=2, fam="bin")
    add("b_where", "{m}.where({0} > {1}, {0}, {1})", arity=2, fam="bin")
    add("b_cat", "{m}.concatenate([{0}, {1}])", arity=2, cond="a0.ndim>=1 and a1.ndim>=1", fam="bin")
    add("b_stack", "{m}.stack([{0}, {1}])", arity=2, fam="bin")
    add("b_cat1", "{m}.concatenate([{0}, {1}], axis=1)", arity=2, cond="a0.ndim>=2 and a1.ndim>=2", fam="bin")
    add("b_matmul", "{m}.matmul({0}, {1})", arity=2, exact=False, cond="a0.ndim>=1 and a1.ndim>=1", fam="bin", rewrite=False)
    return [o for o in ops if o.cond != "False"]


ALL = _mk()
BY_NAME = {o.name: o for o in ALL}
assert len(BY_NAME) == len(ALL)
REWRITE = [o for o in ALL if o.rewrite]


def subset(fams=None, names=None, rewrite_only=False):
    out = []
    for o in ALL:
        if rewrite_only and not o.rewrite:
            continue
        if fams is not None and o.fam not in fams:
            continue
        if names is not None and o.name not in names:
            continue
        out.append(o)
    return out
