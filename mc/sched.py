"""E3 — controlled scheduler: deviation-bounded stateless exploration of the
topological orders of one task graph, with a whole-heap mutation monitor.

The harness owns the only scheduling nondeterminism: which ready task runs
next.  The default choice at every step is the ready task with the lowest
``dask.order`` priority; a *deviation* picks any other ready task.  All
schedules with <= k deviations are enumerated (k = 0, then 1, then 2); every
schedule runs to completion on a FRESH graph over a FRESH source (replay, not
deep-copy: copying would destroy the view aliasing that makes mutation
visible).
"""

from __future__ import annotations

import hashlib

import numpy as np


def fingerprint(v):
    """Content fingerprint that recurses into containers of arrays."""
    if isinstance(v, np.ma.MaskedArray):
        # the data under the mask carries no meaning (it may be uninitialised)
        m = np.ma.getmaskarray(v)
        d = np.where(m, np.zeros((), dtype=v.dtype), np.ma.getdata(v)) if v.dtype.kind in "fiucb" else np.ma.getdata(v)
        return ("ma", fingerprint(np.asarray(d)), fingerprint(m))
    if isinstance(v, np.ndarray):
        if v.dtype == object:
            return ("obj", v.shape, tuple(fingerprint(x) for x in v.reshape(-1).tolist()))
        return ("nd", v.shape, v.dtype.str, hashlib.sha1(np.ascontiguousarray(v).tobytes()).digest())
    if isinstance(v, (list, tuple)):
        return (type(v).__name__, tuple(fingerprint(x) for x in v))
    if isinstance(v, dict):
        return ("dict", tuple((repr(k), fingerprint(x)) for k, x in sorted(v.items(), key=lambda kv: repr(kv[0]))))
    if isinstance(v, np.generic):
        return ("g", v.dtype.str, v.tobytes())
    return ("o", type(v).__name__)


def arrays_in(v):
    if isinstance(v, np.ndarray):
        yield v
    elif isinstance(v, (list, tuple)):
        for x in v:
            yield from arrays_in(x)
    elif isinstance(v, dict):
        for x in v.values():
            yield from arrays_in(x)


class Graph:
    """One fresh task graph prepared for harness execution."""

    def __init__(self, dsk, out_keys):
        from dask._task_spec import DataNode, convert_legacy_graph
        from dask.order import order

        self.g = convert_legacy_graph(dict(dsk))
        self.out_keys = list(out_keys)
        self.deps = {k: set(d for d in n.dependencies if d in self.g) for k, n in self.g.items()}
        missing = {d for k, n in self.g.items() for d in n.dependencies if d not in self.g}
        if missing:
            raise RuntimeError(f"graph has dangling dependencies {sorted(map(str, missing))[:3]}")
        self.data = {k for k, n in self.g.items() if isinstance(n, DataNode)}
        self.tasks = [k for k in self.g if k not in self.data]
        try:
            self.prio = order(dict(self.g))
        except Exception:
            self.prio = {k: i for i, k in enumerate(self.g)}
        self.skey = {k: (self.prio.get(k, 0), str(k)) for k in self.g}


class Violation(Exception):
    def __init__(self, kind, msg):
        super().__init__(msg)
        self.kind = kind
        self.msg = msg


def run_schedule(graph, choices, sources=(), monitor=True):
    """Execute one schedule.  ``choices[i]`` is the index (into the ready list
    sorted by default priority) taken at step i; beyond ``choices`` the default
    (index 0) is taken.  Returns (values, trace) where trace[i] = number of
    ready tasks at step i, and the key order executed."""
    g = graph.g
    cache = {}
    for k in graph.data:
        cache[k] = g[k]({})
    done = set(graph.data)
    waiting = {k: set(graph.deps[k]) - done for k in graph.tasks}
    ready = sorted([k for k, w in waiting.items() if not w], key=graph.skey.get)
    for k in ready:
        del waiting[k]
    dependents = {}
    for k in graph.tasks:
        for d in graph.deps[k]:
            dependents.setdefault(d, []).append(k)
    trace, order_run = [], []
    src_fp = [fingerprint(s) for s in sources]
    fps = {k: fingerprint(v) for k, v in cache.items()} if monitor else {}
    step = 0
    while ready:
        c = choices[step] if step < len(choices) else 0
        if c >= len(ready):
            raise RuntimeError(f"replay divergence: choice {c} at step {step} but only {len(ready)} ready tasks")
        trace.append(len(ready))
        k = ready.pop(c)
        order_run.append(k)
        node = g[k]
        val = node({d: cache[d] for d in node.dependencies})
        if monitor:
            for kk, fp in fps.items():
                if fingerprint(cache[kk]) != fp:
                    raise Violation("dependency-mutated", f"task {k} (step {step}) changed the value of key {kk}" + (" (a dependency of it)" if kk in node.dependencies else " (not even a dependency)"))
            for i, s in enumerate(sources):
                if fingerprint(s) != src_fp[i]:
                    raise Violation("source-mutated", f"task {k} (step {step}) modified user source array #{i}")
            fps[k] = fingerprint(val)
        cache[k] = val
        done.add(k)
        newly = []
        for t in dependents.get(k, ()):
            w = waiting.get(t)
            if w is not None:
                w.discard(k)
                if not w:
                    newly.append(t)
                    del waiting[t]
        if newly:
            ready = sorted(ready + newly, key=graph.skey.get)
        step += 1
    if waiting:
        raise Violation("deadlock", f"{len(waiting)} tasks never became ready (cycle?)")
    return cache, trace, order_run


def explore(make, bound, judge, max_schedules=None):
    """Enumerate all schedules with <= ``bound`` deviations.

    make() -> (Graph, sources)   fresh objects for every schedule
    judge(cache, graph) -> None or (kind, msg)   end-of-run oracle
    Returns dict(schedules, deviated, capped, failure)."""
    stats = {"schedules": 0, "deviated": 0, "capped": False, "failure": None, "max_ready": 0, "tasks": 0}
    stack = [((), 0)]
    while stack:
        prefix, ndev = stack.pop()
        if max_schedules is not None and stats["schedules"] >= max_schedules:
            stats["capped"] = True
            break
        graph, sources = make()
        stats["tasks"] = len(graph.tasks)
        try:
            cache, trace, order_run = run_schedule(graph, prefix, sources)
        except Violation as v:
            stats["failure"] = (v.kind, v.msg, list(prefix))
            return stats
        except RuntimeError:
            raise
        except Exception as e:  # a task raised under this order
            stats["failure"] = ("task-raise", f"{type(e).__name__}: {str(e)[:200]} under schedule {list(prefix)}", list(prefix))
            return stats
        stats["schedules"] += 1
        if ndev:
            stats["deviated"] += 1
        stats["max_ready"] = max([stats["max_ready"]] + trace)
        r = judge(cache, graph)
        if r:
            stats["failure"] = (r[0], r[1] + f" under schedule {list(prefix)}", list(prefix))
            return stats
        if ndev < bound:
            for i in range(len(prefix), len(trace)):
                for alt in range(1, trace[i]):
                    stack.append((tuple(prefix) + (0,) * (i - len(prefix)) + (alt,), ndev + 1))
    return stats
