"""Depth-1 exhaustive enumerations over (source, expression) cases — the
degenerate E1 search used by C12/C14/C18/C19/... where the bound is on the
*argument domain* (every chunking x every index / target / window), not on
program depth.

A case is a JSON-able dict::

    {"source": <source rec>, "expr": "x[1:4]", "nexpr": "a[1:4]" (optional),
     "label": "slice/pos-step", "exact": true, "dtype": true,
     "np_raises_ok": false, "config": {...}}

``expr`` is evaluated with ``x`` = the dask array, ``da``; ``nexpr`` (default:
``expr`` with x -> a, da -> np) with ``a`` = the NumPy source.
"""

from __future__ import annotations

import math
import re
import warnings

import dask
import numpy as np

from mc import explorer as E
from mc import graphx as G
from mc import userfns
from mc.common import ShardOut

warnings.filterwarnings("ignore")

NI_DOCUMENTED = (NotImplementedError,)


def _env(a, x):
    import dask_array as da

    return {"x": x, "da": da, "np": np, "uf": userfns, "a": a, "nan": np.nan}


def default_nexpr(expr):
    s = re.sub(r"\bda\.", "np.", expr)
    s = re.sub(r"\bx\b", "a", s)
    return s


def eval_case(case):
    """Returns (numpy_result_or_exception, dask_collection_or_exception)."""
    a, x = E.make_source(case["source"])
    env = _env(a, x)
    nexpr = case.get("nexpr") or default_nexpr(case["expr"])
    try:
        with np.errstate(all="ignore"):
            ref = eval(nexpr, dict(env, m=np))
    except (NameError, SyntaxError) as e:
        # a reference expression that does not even evaluate is a defect of the
        # harness, never a NumPy refusal
        raise RuntimeError(f"harness: reference expression {nexpr!r} is broken: {type(e).__name__}: {e}") from e
    except Exception as e:  # noqa: BLE001
        ref = e
    try:
        y = eval(case["expr"], dict(env, m=env["da"]))
    except Exception as e:  # noqa: BLE001
        y = e
    return ref, y, a, x


def judge_case(case, out=None, layout=True, extra=None):
    """Standard oracle: NumPy value/shape/dtype, advertised metadata, block
    layout.  Returns failure dict or None."""
    cfg = case.get("config")
    if cfg:
        with dask.config.set(cfg):
            return _judge_case(case, out, layout, extra)
    return _judge_case(case, out, layout, extra)


def _judge_case(case, out, layout, extra):
    ref, y, a, x = eval_case(case)
    label = case.get("label", "case")
    desc = f"{E.prog_str({'source': case['source'], 'steps': []})} ; {case['expr']}" + (f" [config {case['config']}]" if case.get("config") else "")

    def fail(kind, msg, tag=""):
        return {"kind": kind, "signature": f"{kind}:{tag + ':' if tag else ''}{label}", "case": case, "detail": desc + "\n " + msg, "script": script(case)}

    if isinstance(ref, Exception):
        if case.get("np_raises_must_raise"):
            # dask must raise too (at construction or at compute)
            if isinstance(y, Exception):
                if out is not None:
                    out.count("both_raise")
                return None
            try:
                val = y.compute(scheduler="sync")
            except Exception:
                if out is not None:
                    out.count("both_raise")
                return None
            return fail("missing-raise", f"NumPy raises {type(ref).__name__}: {str(ref)[:120]} but dask returned {E._short(val)}")
        if out is not None:
            out.count("numpy_refused")
        return None
    if isinstance(y, Exception):
        if isinstance(y, NI_DOCUMENTED):
            if out is not None:
                out.count("refused")
                out.dcount("refused_by_type", f"NotImplementedError:{label}")
            return None
        if case.get("may_refuse") and isinstance(y, case_refusals(case)):
            if out is not None:
                out.count("refused")
                out.dcount("refused_by_type", f"{type(y).__name__}:{label}")
            return None
        return fail("construct-raise", f"NumPy gives {E._short(ref)} but dask_array raised at construction: {type(y).__name__}: {str(y)[:300]}", E.exc_sig(y))
    if out is not None:
        out.count("accepted")
    try:
        val = y.compute(scheduler="sync")
    except NotImplementedError:
        if out is not None:
            out.count("refused")
        return None
    except Exception as e:  # noqa: BLE001
        if case.get("may_refuse") and isinstance(e, case_refusals(case)):
            if out is not None:
                out.count("refused")
                out.dcount("refused_by_type", f"{type(e).__name__}@compute:{label}")
            return None
        return fail("compute-raise", f"NumPy gives {E._short(ref)} but compute() raised {type(e).__name__}: {str(e)[:300]}", E.exc_sig(e))
    shp = tuple(y.shape)
    known = not any(isinstance(s, float) and math.isnan(s) for s in shp)
    if known and shp != np.shape(ref):
        return fail("meta-shape", f"advertised shape {shp} != numpy {np.shape(ref)}")
    if known and tuple(sum(c) for c in y.chunks) != shp:
        return fail("chunks-sum", f"chunks {y.chunks} do not sum to shape {shp}")
    bad = E.compare(val, ref, exact=case.get("exact", True), dtype=case.get("dtype", True))
    if bad:
        return fail(bad[0], bad[1])
    if np.asarray(val).dtype != y.dtype and case.get("dtype", True):
        return fail("meta-dtype", f"advertised dtype {y.dtype} != computed {np.asarray(val).dtype}")
    if layout and known:
        try:
            yy = G.fresh(y)
            blocks = G.get_blocks(yy.__dask_graph__(), yy.__dask_keys__())
            errs = G.block_shape_errors(yy, blocks)
        except Exception as e:  # noqa: BLE001
            errs = [f"executing block keys raised {type(e).__name__}: {str(e)[:200]}"]
        if errs:
            return fail("block-layout", f"chunks={y.chunks}; " + "; ".join(errs[:2]))
    if extra is not None:
        r = extra(case, y, val, ref, a, x)
        if r:
            return fail(r[0], r[1])
    if out is not None:
        try:
            nb = int(np.prod(x.numblocks)) if x.numblocks else 1
        except Exception:
            nb = 1
        if nb > 1 and np.size(ref) > 0:
            out.count("nontrivial")
    return None


def case_refusals(case):
    m = {"ValueError": ValueError, "IndexError": IndexError, "TypeError": TypeError, "NotImplementedError": NotImplementedError}
    return tuple(m[n] for n in case.get("may_refuse", []))


def script(case):
    lines = ["import numpy as np", "import dask", "import dask_array as da", ""]
    import inspect

    lines += ["class uf:", "    pass", ""]
    body = inspect.getsource(userfns).split("import numpy as np", 1)[1]
    lines.append(body.strip("\n"))
    lines.append("for _k, _v in list(globals().items()):\n    if callable(_v) and not _k.startswith('_') and _k not in ('np','da','dask','uf'):\n        setattr(uf, _k, staticmethod(_v))")
    if case.get("config"):
        lines.append(f"dask.config.set({case['config']!r})")
    lines.append(E.source_src(case["source"]))
    lines.append("x = x0")
    lines.append(f"ref = {case.get('nexpr') or default_nexpr(case['expr'])}")
    lines.append(f"y = {case['expr']}")
    lines.append("val = y.compute(scheduler='sync')")
    lines.append("print('dask :', np.shape(val), val)\nprint('numpy:', np.shape(ref), ref)")
    lines.append("assert np.shape(val) == np.shape(ref) and np.allclose(val, ref, equal_nan=True), 'MISMATCH'")
    return "\n".join(lines) + "\n"


def make(prop, gen_cases, plan_shards, rule, assumptions, floors=None, layout=True, extra=None, bounds=None):
    """Build module-level functions for a case-enumeration check.

    gen_cases(shard) -> iterable of case dicts ; plan_shards(tier) -> list
    """

    def plan(tier, seed):
        return {
            "shards": plan_shards(tier),
            "coverage": {"exhaustive": True, "rule": rule, "bounds": bounds(tier) if bounds else {}},
            "assumptions": list(assumptions),
        }

    def run_shard(shard):
        out = ShardOut()
        for case in gen_cases(shard):
            out.count("evaluations")
            out.count("transitions")
            out.sadd("state_keys", hash((repr(case["source"]), case["expr"], repr(case.get("config")))))
            f = judge_case(case, out, layout=layout, extra=extra)
            if f:
                out.fail(f)
            elif len(out.samples) < 1 and out.counters["nontrivial"]:
                out.sample(f"{E.prog_str({'source': case['source'], 'steps': []})} ; {case['expr']}")
        return out.result()

    def coverage(agg, plan):
        c = agg.counters
        return {"states": len(agg.sets.get("state_keys", ())), "transitions": c["transitions"], "traces_validated_against_impl": c["accepted"], "evaluations": c["evaluations"], "distinct_nontrivial": c["nontrivial"]}

    def vacuity(agg, plan):
        c = agg.counters
        v = []
        fl = {"accepted": 500, "nontrivial": 100}
        fl.update(floors or {})
        for k, m in fl.items():
            if c[k] < m:
                v.append(f"coverage counter {k}={c[k]} below floor {m}")
        return v

    def replay(case):
        return judge_case(case, None, layout=layout, extra=extra)

    return {"PROPERTY": prop, "plan": plan, "run_shard": run_shard, "coverage": coverage, "vacuity": vacuity, "replay": replay}
