"""Finite domains enumerated by the checks (DESIGN §3.2)."""

from __future__ import annotations

import itertools

import numpy as np


def compositions(n):
    """All chunkings CH(n) of an axis of length n (2^(n-1); CH(0)={(0,)})."""
    if n == 0:
        return [(0,)]
    out = []
    for bits in range(1 << (n - 1)):
        cur = 1
        parts = []
        for i in range(n - 1):
            if bits >> i & 1:
                parts.append(cur)
                cur = 1
            else:
                cur += 1
        parts.append(cur)
        out.append(tuple(parts))
    out.sort(key=lambda c: (len(c), c))
    return out


def with_zero_blocks(ch, max_zeros=1):
    """CHZ: ch plus every chunking with up to ``max_zeros`` zero-size blocks
    inserted."""
    out = {tuple(ch)}
    frontier = {tuple(ch)}
    for _ in range(max_zeros):
        nxt = set()
        for c in frontier:
            for pos in range(len(c) + 1):
                nxt.add(c[:pos] + (0,) + c[pos:])
        out |= nxt
        frontier = nxt
    return sorted(out, key=lambda c: (len(c), c))


def chz(n, max_zeros=1):
    out = set()
    for c in compositions(n):
        out.update(with_zero_blocks(c, max_zeros))
    return sorted(out, key=lambda c: (len(c), c))


def chunkings_nd(shape):
    return list(itertools.product(*[compositions(n) for n in shape]))


def slices_1d(n, wide=True):
    """Slices with start/stop in {None} ∪ [-n-2, n+2], step in
    {None, ±1, ±2, ±3, ±(n+1)}."""
    bounds = [None] + list(range(-n - 2, n + 3))
    steps = [None, 1, -1, 2, -2, 3, -3]
    if wide:
        steps += [n + 1, -(n + 1)]
    steps = list(dict.fromkeys(steps))
    return [slice(a, b, s) for a in bounds for b in bounds for s in steps]


def ints_1d(n):
    return list(range(-n - 1, n + 1))


def int_lists_1d(n):
    if n == 0:
        return [[]]
    vals = list(range(-n, n))
    out = [[]]
    out += [[a] for a in vals]
    out += [[a, b] for a in vals for b in vals]
    if n >= 3:
        out += [list(range(n)), list(range(n - 1, -1, -1)), [0, 0, n - 1], [n - 1, 0, n - 1, 0], [1, 1, 1], [n - 1, n - 2, 0]]
    return out


def masks_1d(n):
    if n <= 4:
        return [np.array(bits, dtype=bool) for bits in itertools.product([False, True], repeat=n)]
    pats = [np.zeros(n, bool), np.ones(n, bool), np.arange(n) % 2 == 0, np.arange(n) % 2 == 1, np.arange(n) < 2, np.arange(n) >= n - 1, np.arange(n) == n // 2]
    return pats


def fmt_index(idx):
    """Python source for an index object."""
    if isinstance(idx, tuple):
        return "(" + ", ".join(fmt_index(i) for i in idx) + ("," if len(idx) == 1 else "") + ")"
    if isinstance(idx, slice):
        return f"slice({idx.start}, {idx.stop}, {idx.step})"
    if idx is Ellipsis:
        return "Ellipsis"
    if isinstance(idx, np.ndarray):
        return f"np.array({idx.tolist()!r}, dtype={str(idx.dtype)!r})"
    return repr(idx)
