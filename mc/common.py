"""Shared runner machinery: process setup, sharding, evidence, replay files,
known findings.  Everything here is plain Python run by /venv/bin/python.

Contract of a check module (mc/checks/<id>.py)::

    PROPERTY = "C01"
    def plan(tier, seed) -> Plan          # shards + bounds description
    def run_shard(shard) -> ShardResult   # executed in a worker process
    def replay(case) -> failure-or-None   # re-run one recorded case

A *failure* is a dict with keys
    kind       short oracle name ("value", "shape", "raise", ...)
    signature  string identifying the defect class (matched against
               known_findings.json)
    case       JSON-able description sufficient for replay()
    detail     human-readable expected/observed
    script     optional stand-alone python source reproducing it
"""

from __future__ import annotations

import hashlib
import json
import os
import random
import re
import subprocess
import sys
import time
import traceback
from collections import Counter

VERIF = os.path.dirname(os.path.dirname(os.path.abspath(__file__)))
REPO = os.environ.get("VERIF_REPO", "/repo")
PY = "/venv/bin/python"
EVIDENCE_DIR = os.environ.get("VERIF_EVIDENCE_DIR") or os.path.join(VERIF, "evidence")
REPLAY_DIR = os.environ.get("VERIF_REPLAY_DIR") or os.path.join(VERIF, "replays")
KNOWN_FINDINGS = os.path.join(VERIF, "known_findings.json")
KNOWN_CONFIRM = int(os.environ.get("VERIF_KNOWN_CONFIRM", "3"))


def ensure_env():
    """Re-exec with a fixed hash seed and the repo under test first on the
    path, so every worker sees the same interpreter state."""
    want = {"PYTHONHASHSEED": "0", "OMP_NUM_THREADS": "1", "OPENBLAS_NUM_THREADS": "1", "MKL_NUM_THREADS": "1"}
    changed = False
    for k, v in want.items():
        if os.environ.get(k) != v:
            os.environ[k] = v
            changed = True
    pp = os.environ.get("PYTHONPATH", "").split(os.pathsep)
    need = [REPO, VERIF]
    if pp[: len(need)] != need:
        os.environ["PYTHONPATH"] = os.pathsep.join(need + [p for p in pp if p and p not in need])
        changed = True
    if changed and not os.environ.get("_VERIF_REEXEC"):
        os.environ["_VERIF_REEXEC"] = "1"
        os.execv(sys.executable, [sys.executable] + sys.argv)


def nworkers():
    try:
        n = int(os.environ.get("VERIF_WORKERS", "0"))
    except ValueError:
        n = 0
    return n or min(16, os.cpu_count() or 4)


def seed_value():
    try:
        return int(os.environ.get("VERIF_SEED", "0"))
    except ValueError:
        return 0


# --------------------------------------------------------------------------
# sharded execution


def _shard_entry(args):
    modname, shard = args
    import importlib

    mod = importlib.import_module(modname)
    t0 = time.time()
    try:
        res = mod.run_shard(shard)
    except BaseException as e:  # harness bug: surface, never swallow
        return {"harness_error": "".join(traceback.format_exception(type(e), e, e.__traceback__))[-4000:], "shard": repr(shard)[:500]}
    res["wall"] = time.time() - t0
    return res


def run_sharded(modname, shards, seed=0, progress=True, workers=None, maxtasks=None):
    """Run shards on a pool of long-lived worker processes.  ``seed`` only
    permutes the order in which shards are explored."""
    import multiprocessing as mp

    shards = list(shards)
    order = list(range(len(shards)))
    random.Random(seed).shuffle(order)
    work = [(modname, shards[i]) for i in order]
    n = workers or nworkers()
    out = []
    t0 = time.time()
    if n <= 1 or len(work) <= 1:
        for w in work:
            out.append(_shard_entry(w))
        return out
    ctx = mp.get_context("fork")
    with ctx.Pool(min(n, len(work)), maxtasksperchild=maxtasks) as pool:
        done = 0
        last = t0
        for r in pool.imap_unordered(_shard_entry, work, chunksize=1):
            out.append(r)
            done += 1
            if progress and time.time() - last > 30:
                last = time.time()
                print(f"  .. {done}/{len(work)} shards, {time.time() - t0:.0f}s", file=sys.stderr, flush=True)
    return out


# --------------------------------------------------------------------------
# aggregation helpers


class Agg:
    """Accumulates coverage counters, samples and failures across shards."""

    def __init__(self):
        self.counters = Counter()
        self.dicts = {}
        self.samples = []
        self.failures = []
        self.sets = {}
        self.harness_errors = []

    def add(self, res):
        if "harness_error" in res:
            self.harness_errors.append(res)
            return
        for k, v in res.get("counters", {}).items():
            self.counters[k] += v
        for name, d in res.get("dicts", {}).items():
            tgt = self.dicts.setdefault(name, Counter())
            for k, v in d.items():
                tgt[k] += v
        for name, s in res.get("sets", {}).items():
            self.sets.setdefault(name, set()).update(s)
        for s in res.get("samples", []):
            if len(self.samples) < 12:
                self.samples.append(s)
        self.failures.extend(res.get("failures", []))


class ShardOut:
    """What a worker fills in."""

    def __init__(self):
        self.counters = Counter()
        self.dicts = {}
        self.sets = {}
        self.samples = []
        self.failures = []
        self._fail_sigs = Counter()

    def count(self, k, n=1):
        self.counters[k] += n

    def dcount(self, name, k, n=1):
        self.dicts.setdefault(name, Counter())[k] += n

    def sadd(self, name, k):
        self.sets.setdefault(name, set()).add(k)

    def sample(self, s, cap=3):
        if len(self.samples) < cap:
            self.samples.append(s)

    def fail(self, f, per_sig=3):
        """Keep at most ``per_sig`` cases per signature per shard (all are
        counted)."""
        sig = f.get("signature", "?")
        self._fail_sigs[sig] += 1
        self.dcount("failures_by_signature", sig)
        if self._fail_sigs[sig] <= per_sig:
            self.failures.append(f)

    def result(self):
        return {
            "counters": dict(self.counters),
            "dicts": {k: dict(v) for k, v in self.dicts.items()},
            "sets": {k: set(v) for k, v in self.sets.items()},
            "samples": self.samples,
            "failures": self.failures,
        }


# --------------------------------------------------------------------------
# known findings


def load_known():
    try:
        with open(KNOWN_FINDINGS) as f:
            data = json.load(f)
    except FileNotFoundError:
        return []
    return data.get("findings", [])


def match_known(prop, failure, known=None):
    """An ``open`` finding suppresses a failure iff the property matches and
    the finding's ``signature`` regex fully matches the failure's signature
    (and, when given, its ``where`` predicate keys equal the case's)."""
    known = load_known() if known is None else known
    for k in known:
        if k.get("status") != "open":
            continue
        props = k.get("properties", [k.get("property")])
        if prop not in props and "*" not in props:
            continue
        if re.fullmatch(k["signature"], failure.get("signature", "")):
            return k
    return None


# --------------------------------------------------------------------------
# replay artefacts


def _jsonable(o):
    import numpy as np

    if isinstance(o, dict):
        return {str(k): _jsonable(v) for k, v in o.items()}
    if isinstance(o, (list, tuple, set, frozenset)):
        return [_jsonable(v) for v in o]
    if isinstance(o, np.ndarray):
        return {"__ndarray__": o.tolist(), "dtype": str(o.dtype), "shape": list(o.shape)}
    if isinstance(o, np.generic):
        return o.item() if not isinstance(o, np.complexfloating) else str(o)
    if isinstance(o, float):
        if o != o:
            return "nan"
        return o
    if isinstance(o, (int, str, bool)) or o is None:
        return o
    if isinstance(o, complex):
        return str(o)
    if isinstance(o, slice):
        return {"__slice__": [o.start, o.stop, o.step]}
    return repr(o)


def write_replay(prop, failure):
    os.makedirs(REPLAY_DIR, exist_ok=True)
    body = _jsonable(
        {
            "property": prop,
            "kind": failure.get("kind"),
            "signature": failure.get("signature"),
            "case": failure.get("case"),
            "detail": failure.get("detail"),
        }
    )
    blob = json.dumps(body, sort_keys=True, indent=1)
    h = hashlib.sha1(blob.encode()).hexdigest()[:12]
    path = os.path.join(REPLAY_DIR, f"{prop}-{h}.json")
    with open(path, "w") as f:
        f.write(blob)
    if failure.get("script"):
        with open(path[:-5] + ".py", "w") as f:
            f.write(failure["script"])
    return path


def replay_in_fresh_process(prop, path):
    """Replay discipline: run the recorded case in a fresh interpreter.
    Returns (reproduced: bool, output)."""
    env = dict(os.environ)
    env.pop("_VERIF_REEXEC", None)
    p = subprocess.run([PY, os.path.join(VERIF, "check"), prop, "--replay", path], capture_output=True, text=True, env=env, timeout=900)
    if "VIOLATION" in p.stdout or "KNOWN-FINDING" in p.stdout:
        return True, p.stdout[-2000:]
    if "OK property=" in p.stdout:
        return False, p.stdout[-2000:] + p.stderr[-2000:]
    return None, f"[replay exited {p.returncode} without a verdict]\n" + p.stdout[-1000:] + p.stderr[-2000:]


# --------------------------------------------------------------------------
# evidence


def write_evidence(prop, tier, seed, coverage, wall_s, violations, assumptions=(), extra=None):
    os.makedirs(EVIDENCE_DIR, exist_ok=True)
    ev = {
        "property_id": prop,
        "tier": tier,
        "seed": int(seed),
        "level": "model_checking",
        "coverage": _jsonable(coverage),
        "assumptions": list(assumptions),
        "wall_s": round(float(wall_s), 2),
        "violations": int(violations),
    }
    if extra:
        ev.update(_jsonable(extra))
    path = os.path.join(EVIDENCE_DIR, f"{prop}.json")
    tmp = path + ".tmp"
    with open(tmp, "w") as f:
        json.dump(ev, f, indent=1, sort_keys=True)
    os.replace(tmp, path)
    return path


# --------------------------------------------------------------------------
# the generic driver used by ./check


def drive(mod, tier, seed):
    """Plan, run shards, adjudicate failures, write evidence, print the
    verdict lines.  Returns the process exit code."""
    prop = mod.PROPERTY
    t0 = time.time()
    if os.path.isdir(REPLAY_DIR):
        for fn in os.listdir(REPLAY_DIR):
            if fn.startswith(prop + "-"):
                os.remove(os.path.join(REPLAY_DIR, fn))
    from mc import cleanrefs

    cleanrefs.ensure()
    plan = mod.plan(tier, seed)
    shards = plan["shards"]
    results = run_sharded(mod.__name__, shards, seed=seed, workers=plan.get("workers"), maxtasks=plan.get("maxtasksperchild"))
    agg = Agg()
    for r in results:
        agg.add(r)
    if hasattr(mod, "post"):
        mod.post(agg, plan)
    wall = time.time() - t0

    if agg.harness_errors:
        for h in agg.harness_errors[:3]:
            print("HARNESS-ERROR", h["shard"], "\n", h["harness_error"], file=sys.stderr)
        print(f"HARNESS-ERROR property={prop}: {len(agg.harness_errors)} shard(s) crashed in the harness; no verdict")
        return 2

    # adjudicate: group failures by signature, replay one representative of
    # each class in a fresh process (twice) before reporting it.
    known = load_known()
    by_sig = {}
    for f in agg.failures:
        by_sig.setdefault(f.get("signature", "?"), []).append(f)
    n_viol = 0
    known_lines = []
    viol_lines = []
    unrepro = []
    known_hits = {}
    fail_counts = agg.dicts.get("failures_by_signature", {})
    paths = {sig: write_replay(prop, by_sig[sig][0]) for sig in by_sig}
    confirmed = {}
    if os.environ.get("VERIF_NO_REPLAY_CONFIRM") != "1" and by_sig:
        from concurrent.futures import ThreadPoolExecutor

        def _confirm(sig):
            # two reproductions in fresh processes; a replay process that dies
            # without a verdict (killed / starved on an overloaded machine) is
            # retried, a replay that runs and finds nothing is not
            oks, out1 = 0, ""
            for attempt in range(4):
                try:
                    ok, out1 = replay_in_fresh_process(prop, paths[sig])
                except subprocess.TimeoutExpired:
                    ok, out1 = None, "replay timed out"
                if ok:
                    oks += 1
                    if oks == 2:
                        return sig, True, out1
                elif ok is False:
                    return sig, False, out1
            return sig, False, out1

        # every signature class that would be reported as a VIOLATION is
        # confirmed; of the classes that match an already adjudicated known
        # finding, up to KNOWN_CONFIRM per finding are (they only feed the
        # KNOWN-FINDING line, and a finding can have hundreds of classes)
        to_confirm, per_kf = [], Counter()
        for sig in sorted(by_sig):
            kf = match_known(prop, by_sig[sig][0], known)
            if kf is None:
                to_confirm.append(sig)
            elif per_kf[kf["id"]] < KNOWN_CONFIRM:
                per_kf[kf["id"]] += 1
                to_confirm.append(sig)
        with ThreadPoolExecutor(nworkers()) as tp:
            for sig, ok, out1 in tp.map(_confirm, to_confirm):
                confirmed[sig] = (ok, out1)
    for sig in sorted(by_sig):
        fs = by_sig[sig]
        f = fs[0]
        k = match_known(prop, f, known)
        path = paths[sig]
        if sig in confirmed and not confirmed[sig][0]:
            unrepro.append((sig, path, confirmed[sig][1][-800:]))
            continue
        cnt = fail_counts.get(sig, len(fs))
        if k is not None:
            e = known_hits.setdefault(k["id"], {"k": k, "n": 0, "classes": 0, "path": path})
            e["n"] += cnt
            e["classes"] += 1
        else:
            n_viol += 1
            viol_lines.append((path, sig, cnt, f.get("detail", "")))
    for kid, e in sorted(known_hits.items()):
        known_lines.append(f"KNOWN-FINDING: property={prop} {kid}: {e['k']['what']} [{e['n']} case(s) in {e['classes']} signature class(es) this run, e.g. {e['path']}]")

    cov = plan.get("coverage", {}).copy()
    cov.update(mod.coverage(agg, plan) if hasattr(mod, "coverage") else {})
    cov.setdefault("samples", agg.samples[:8])
    cov["counters"] = dict(agg.counters)
    for name, d in agg.dicts.items():
        cov[name] = dict(sorted(d.items(), key=lambda kv: (-kv[1], str(kv[0])))[:60])
    for name, s in agg.sets.items():
        cov.setdefault(name + "_n", len(s))
    cov["known_findings_reported"] = len(known_lines)
    cov["failure_classes"] = len(by_sig)
    write_evidence(prop, tier, seed, cov, wall, n_viol, assumptions=plan.get("assumptions", ()))

    # vacuity guards
    vac = mod.vacuity(agg, plan) if hasattr(mod, "vacuity") else []
    for line in known_lines:
        print(line)
    for path, sig, cnt, detail in viol_lines:
        print(f"VIOLATION property={prop} replay={path}")
        print(f"   signature: {sig}  ({cnt} case(s))")
        print("   " + str(detail)[:600].replace("\n", "\n   "))
    for sig, path, out in unrepro:
        print(f"UNREPRODUCIBLE property={prop} signature={sig} replay={path}\n{out}")
    summary = {k: cov[k] for k in ("states", "transitions", "evaluations", "distinct_nontrivial", "exhaustive") if k in cov}
    print(f"[{prop} {tier}] {summary} violations={n_viol} known={len(known_lines)} wall={wall:.1f}s")
    if n_viol:
        return 1
    if unrepro:
        return 2
    if vac:
        for v in vac:
            print(f"VACUOUS property={prop}: {v}")
        return 2
    return 0
