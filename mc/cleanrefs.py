"""Reference values that only a clean interpreter can give: each random
array of mc/userfns.RANDOM_SRC is built ALONE in a fresh subprocess (nothing
else alive, empty registries and caches) and its values are shipped back."""

from __future__ import annotations

import json
import os
import subprocess
import sys

from mc import userfns

_CODE = r"""
import sys, json, gc
sys.path[:0] = [{repo!r}, {verif!r}]
import numpy as np, dask_array as da
from mc import userfns
out = {{}}
for name, src in userfns.RANDOM_SRC.items():
    for shape in userfns.RANDOM_SHAPES:
        x = eval(src.format(shape=shape), {{"da": da, "np": np}})
        v = x.compute(scheduler="sync")
        out[name + "|" + repr(tuple(shape))] = [str(v.dtype), np.asarray(v).tolist()]
        del x, v
        gc.collect()
print("REFS=" + json.dumps(out))
"""


def ensure():
    if userfns.REFS:
        return
    from mc.common import PY, REPO, VERIF

    env = dict(os.environ, PYTHONHASHSEED="0")
    p = subprocess.run([PY, "-c", _CODE.format(repo=REPO, verif=VERIF)], capture_output=True, text=True, env=env, timeout=300)
    line = [l for l in p.stdout.splitlines() if l.startswith("REFS=")]
    if not line:
        # the random module itself is broken on this tree: leave REFS empty so
        # the random ops are refused by their NumPy side (counted), never crash
        sys.stderr.write("cleanrefs: could not compute clean references: " + p.stderr[-500:] + "\n")
        return
    import numpy as np

    data = json.loads(line[0][5:])
    for k, (dt, v) in data.items():
        name, shape = k.split("|")
        userfns.REFS[(name, eval(shape))] = np.array(v, dtype=dt)
