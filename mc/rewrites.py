"""Rewrite tracer: records every (before, after) pair produced by the
``_simplify_down`` / ``_simplify_up`` / ``_lower`` hooks of every ArrayExpr
subclass while it is switched on (applied from outside the repo by wrapping
the methods; same technique as dask_array.trace_rewrites but the expression
objects are kept)."""

from __future__ import annotations

import functools

_STATE = {"on": False, "log": [], "installed": False, "rules": set()}


def _all_subclasses(cls):
    out = set()
    stack = [cls]
    while stack:
        c = stack.pop()
        for s in c.__subclasses__():
            if s not in out:
                out.add(s)
                stack.append(s)
    return out


def install():
    if _STATE["installed"]:
        return
    import importlib
    import pkgutil

    import dask_array
    from dask._expr import Expr
    from dask_array._expr import ArrayExpr

    # make sure every module that defines expression classes is imported
    for m in pkgutil.walk_packages(dask_array.__path__, "dask_array."):
        if ".tests" in m.name or "_frisky" in m.name or m.name.endswith("_xarray") or m.name.endswith(".xarray") or "_rust" in m.name:
            continue
        try:
            importlib.import_module(m.name)
        except Exception:
            pass

    def wrap(cls, hook):
        orig = cls.__dict__[hook]
        rule = f"{cls.__name__}.{hook}"
        _STATE["rules"].add(rule)

        if hook == "_simplify_up":

            @functools.wraps(orig)
            def w(self, parent, dependents):
                out = orig(self, parent, dependents)
                if _STATE["on"] and isinstance(out, Expr) and out._name != parent._name:
                    _STATE["log"].append((rule, parent, out))
                return out

        else:

            @functools.wraps(orig)
            def w(self, *a, **k):
                out = orig(self, *a, **k)
                if _STATE["on"] and isinstance(out, Expr) and out._name != self._name:
                    _STATE["log"].append((rule, self, out))
                return out

        setattr(cls, hook, w)

    for cls in [ArrayExpr] + sorted(_all_subclasses(ArrayExpr), key=lambda c: c.__qualname__):
        for hook in ("_simplify_down", "_simplify_up", "_lower"):
            if hook in cls.__dict__ and callable(cls.__dict__[hook]) and not isinstance(cls.__dict__[hook], (property, functools.cached_property)):
                wrap(cls, hook)
    _STATE["installed"] = True


class recording:
    def __enter__(self):
        install()
        self.prev = _STATE["on"]
        _STATE["log"] = []
        _STATE["on"] = True
        return self

    def __exit__(self, *a):
        _STATE["on"] = self.prev
        self.log = _STATE["log"]
        _STATE["log"] = []
        return False


def rules():
    install()
    return sorted(_STATE["rules"])
