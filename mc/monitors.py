"""Monitors evaluated on every state of the E1 program explorer.

Each returns ``None`` (holds) or ``(kind, tag, message)``; the E1 check
wrapper turns that into a failure with a minimised signature path.  A judge
returning ``("refused", ...)`` counts a loud NotImplementedError refusal.
"""

from __future__ import annotations

import math
import signal

import dask
import numpy as np

from mc import explorer as E
from mc import graphx as G


def nblocks(y):
    try:
        return int(np.prod(y.numblocks)) if y.numblocks else 1
    except Exception:
        return 1


# ------------------------------------------------------------------ C01


def judge_c01(y, ref, exact, check_dtype, out=None):
    try:
        val = y.compute(scheduler="sync")
    except NotImplementedError:
        return ("refused", "", "")
    except Exception as e:
        return ("compute-raise", E.exc_sig(e), f"NumPy gives {E._short(ref)} but compute() raised {type(e).__name__}: {str(e)[:300]}")
    if tuple(y.shape) != np.shape(ref) and not any(s != s for s in y.shape):
        return ("meta-shape", "", f"advertised shape {y.shape} != numpy {np.shape(ref)}")
    bad = E.compare(val, ref, exact=exact, dtype=check_dtype)
    if bad:
        return (bad[0], "", bad[1])
    if out is not None:
        out.dcount("outcome_shapes", str(np.shape(ref)))
    return None


# ------------------------------------------------------------------ C03


def judge_c03(y, ref, exact, check_dtype, out=None):
    """Advertised shape/dtype/chunks are what the graph produces, block by
    block, with optimize-graph on and off."""
    for opt in (True, False):
        with dask.config.set({"array.optimize-graph": opt}):
            yy = G.fresh(y)
            try:
                dsk = yy.__dask_graph__()
                keys = yy.__dask_keys__()
                blocks = G.get_blocks(dsk, keys)
            except NotImplementedError:
                return ("refused", "", "")
            except Exception as e:
                return ("compute-raise", f"opt={opt}:" + E.exc_sig(e), f"executing the graph (optimize-graph={opt}) raised {type(e).__name__}: {str(e)[:300]}")
            errs = G.block_shape_errors(yy, blocks)
            if errs:
                return ("block-layout", f"opt={opt}", f"chunks={yy.chunks} dtype={yy.dtype}; " + "; ".join(errs[:3]))
            try:
                whole = G.assemble(blocks)
            except Exception as e:
                return ("assemble-raise", f"opt={opt}", f"blocks do not assemble: {type(e).__name__}: {str(e)[:200]}")
            shp = tuple(yy.shape)
            if not any(isinstance(s, float) and math.isnan(s) for s in shp) and np.shape(whole) != shp:
                return ("result-shape", f"opt={opt}", f"result shape {np.shape(whole)} != advertised {shp}")
            if np.asarray(whole).dtype != yy.dtype:
                return ("result-dtype", f"opt={opt}", f"result dtype {np.asarray(whole).dtype} != advertised {yy.dtype}")
            if out is not None and opt:
                if nblocks(yy) > 1:
                    out.count("multi_block_outputs")
                # did optimization choose a different root layout (bridge exercised)?
                try:
                    le = yy._lowered_expr
                    inner = le.operands[0] if type(le).__name__ == "RootAlias" else le
                    if type(inner).__name__ in ("TasksRechunk", "Rechunk") or type(le).__name__ == "RootAlias":
                        out.count("root_renamed_or_bridged")
                except Exception:
                    pass
    return None


# ------------------------------------------------------------------ C04


def judge_c04(y, ref, exact, check_dtype, out=None):
    name0, chunks0, dtype0 = y.name, y.chunks, y.dtype
    keys0 = y.__dask_keys__()
    want = G.expected_key_grid(name0, y.numblocks)
    if keys0 != want:
        return ("keys-grid", "", f"__dask_keys__() is not the (name, *block) grid over numblocks {y.numblocks}: {str(keys0)[:200]}")
    for opt in (True, False):
        with dask.config.set({"array.optimize-graph": opt}):
            yy = G.fresh(y)
            try:
                dsk = yy.__dask_graph__()
            except NotImplementedError:
                return ("refused", "", "")
            except Exception as e:
                return ("graph-raise", f"opt={opt}:" + E.exc_sig(e), f"__dask_graph__() (optimize-graph={opt}) raised {type(e).__name__}: {str(e)[:300]}")
            dsk = dict(dsk)
            fk = G.flat_keys(yy.__dask_keys__())
            if yy.__dask_keys__() != keys0 or yy.name != name0:
                return ("name-changed", f"opt={opt}", f"name/keys changed after graph construction: {name0} -> {yy.name}")
            missing = [k for k in fk if k not in dsk]
            if missing:
                return ("output-key-missing", f"opt={opt}", f"graph does not define advertised key(s) {missing[:3]}")
            try:
                deps, g = G.task_deps(dsk)
            except Exception as e:
                return ("graph-malformed", f"opt={opt}:" + E.exc_sig(e), f"graph conversion raised {type(e).__name__}: {str(e)[:200]}")
            undefined = sorted({str(d) for k, ds in deps.items() for d in ds if d not in deps})
            if undefined:
                return ("dangling-dependency", f"opt={opt}", f"tasks depend on undefined key(s) {undefined[:3]}")
            cyc = G.find_cycle(deps)
            if cyc:
                return ("cycle", f"opt={opt}", f"dependency cycle through {cyc[:3]}")
            # no key defined by two different layers with different tasks
            try:
                low = yy._lowered_expr
                owner = {}
                for node in low.walk():
                    lay = node._layer()
                    for k, t in lay.items():
                        o = owner.get(k)
                        # (an Alias that forwards a key to where the same layer's value
                        # now lives is not a second definition of a computation; whether
                        # equal keys always carry equal VALUES is C06's registry check)
                        if o is not None and o[0] != node._name and repr(o[1]) != repr(t) and "Alias" not in (type(o[1]).__name__, type(t).__name__):
                            return ("key-defined-twice", f"opt={opt}", f"key {k} defined by layers {o[0]} and {node._name} with different tasks")
                        owner[k] = (node._name, t)
                if out is not None and opt and type(low).__name__ == "RootAlias":
                    out.count("root_renamed")
            except NotImplementedError:
                pass
            if (yy.name, yy.chunks, yy.dtype) != (name0, chunks0, dtype0):
                return ("meta-changed", f"opt={opt}", "name/chunks/dtype changed after __dask_graph__()")
    # after optimize()/compute()/persist the identity must be unchanged
    try:
        yo = y.optimize()
        y.compute(scheduler="sync")
    except NotImplementedError:
        return ("refused", "", "")
    except Exception as e:
        return ("compute-raise", E.exc_sig(e), f"{type(e).__name__}: {str(e)[:200]}")
    if (y.name, y.chunks, y.dtype, y.__dask_keys__()) != (name0, chunks0, dtype0, keys0):
        return ("meta-changed", "after-compute", "name/chunks/dtype/keys changed after optimize()+compute()")
    return _closed_after_update(y, out)


def _closed_after_update(y, out):
    """History: keys and graph of a collection were handed out, then it is
    updated in place; the advertised keys must still be the (name, *block)
    grid of the NEW name and be defined by the new graph."""
    if y.ndim < 1 or y.dtype.kind != "f" or not y.shape[0] or any(isinstance(s, float) and s != s for dim in y.chunks for s in dim):
        return None
    for uname, upd in (("setitem", lambda z: z.__setitem__(slice(0, 1), -1.0)), ("iadd", lambda z: z.__iadd__(3.0))):
        z = G.fresh(y)
        try:
            z.__dask_keys__(), z.__dask_graph__()
            z2 = upd(z)
            z = z if z2 is None else z2
            keys = z.__dask_keys__()
            dsk = dict(z.__dask_graph__())
        except Exception:  # noqa: BLE001  (a refused / failing update is C11's business)
            continue
        if out is not None:
            out.count("closure_after_update")
        if keys != G.expected_key_grid(z.name, z.numblocks):
            return ("keys-grid-after-update", uname, f"after handing out keys/graph and then {uname} in place, __dask_keys__() advertises {str(G.flat_keys(keys)[:2])} but the collection is named {z.name}")
        missing = [k for k in G.flat_keys(keys) if k not in dsk]
        if missing:
            return ("output-key-missing-after-update", uname, f"after {uname} in place the graph does not define advertised key(s) {missing[:2]}")
    return None


# ------------------------------------------------------------------ C08


def _tree_delta(a, b):
    """Which node types the second pass removed/added: '-A,-B/+C'."""
    na = {n._name: type(n).__name__ for n in a.walk()}
    nb = {n._name: type(n).__name__ for n in b.walk()}
    from collections import Counter

    rem = Counter(t for k, t in na.items() if k not in nb)
    add = Counter(t for k, t in nb.items() if k not in na)
    return "-" + ",".join(sorted(rem - add)) + "/+" + ",".join(sorted(add - rem))


class _Timeout(Exception):
    pass


def _alarm(signum, frame):
    raise _Timeout()


def judge_c08(y, ref, exact, check_dtype, out=None, watchdog=20):
    expr = y.expr
    # the watchdog counts the CPU time of this process (ITIMER_VIRTUAL): a pass
    # that does not terminate burns CPU, a process that is merely starved on a
    # busy machine does not; a long wall-clock alarm backs it up for blocking
    old = signal.signal(signal.SIGALRM, _alarm)
    oldv = signal.signal(signal.SIGVTALRM, _alarm)
    signal.alarm(watchdog * 30)
    signal.setitimer(signal.ITIMER_VIRTUAL, watchdog)
    try:
        stage = "simplify"
        try:
            simp = expr.simplify()
            stage = "lower"
            low = G.lower_raw(simp)
            stage = "fuse"
            fused = low.fuse()
            stage = "optimize"
            opt = expr.optimize()
        except _Timeout:
            return ("non-termination", stage, f"{stage} did not return within {watchdog}s of CPU time")
        except NotImplementedError:
            return ("refused", "", "")
        except Exception as e:
            # allowed only if the unoptimized compute raises too
            signal.alarm(watchdog * 30)
            signal.setitimer(signal.ITIMER_VIRTUAL, watchdog)
            try:
                with dask.config.set({"array.optimize-graph": False}):
                    G.fresh(y).compute(scheduler="sync")
            except _Timeout:
                return ("non-termination", "unoptimized", "unoptimized compute did not return")
            except Exception:
                if out is not None:
                    out.count("both_raise")
                return None
            kind = "non-convergence" if "does not converge" in str(e) else "optimize-raise"
            return (kind, stage + ":" + E.exc_sig(e), f"{stage} raised {type(e).__name__}: {str(e)[:300]} but the unoptimized compute succeeds")
        try:
            stage = "re-simplify"
            s2 = simp.simplify()
            if s2._name != simp._name:
                return ("simplify-not-idempotent", "", f"simplify().simplify() renamed {simp._name} -> {s2._name}")
            stage = "re-optimize"
            o2 = opt.optimize()
            if o2._name != opt._name:
                return ("optimize-not-idempotent", _tree_delta(opt, o2), f"optimize().optimize() renamed {opt._name} -> {o2._name}")
            stage = "collection-optimize"
            c1 = y.optimize()
            c2 = c1.optimize()
            if c2.name != c1.name:
                return ("optimize-not-idempotent", "collection", "Array.optimize().optimize() renamed")
            c3 = G.fresh(c1).optimize()
            if c3.expr._name != c1.expr._name:
                return ("optimize-not-idempotent", "collection-fresh:" + _tree_delta(c1.expr, c3.expr), f"optimizing a fresh collection over the optimized expression renamed {c1.expr._name} -> {c3.expr._name}")
        except _Timeout:
            return ("non-termination", stage, f"{stage} did not return within {watchdog}s of CPU time")
        except NotImplementedError:
            return ("refused", "", "")
        except Exception as e:
            return ("reoptimize-raise", stage + ":" + E.exc_sig(e), f"{stage} raised {type(e).__name__}: {str(e)[:300]}")
        if out is not None:
            if simp._name != expr._name:
                out.count("simplify_changed")
            if low._name != simp._name:
                out.count("lower_changed")
            if fused._name != low._name:
                out.count("fuse_changed")
    finally:
        signal.alarm(0)
        signal.setitimer(signal.ITIMER_VIRTUAL, 0)
        signal.signal(signal.SIGALRM, old)
        signal.signal(signal.SIGVTALRM, oldv)
    return None


# ------------------------------------------------------------------ C27


def _tb_err(node):
    try:
        tb = node.transfer_bytes
    except NotImplementedError:
        return None
    except Exception as e:
        # a node whose own .chunks raises is broken as an expression (the
        # estimate merely trips over it): signed by the raise site so that it is
        # told apart from a defect of the estimate itself
        try:
            node.chunks
        except Exception as e2:  # noqa: BLE001
            return ("node-chunks-raise:" + E.exc_sig(e2), f".chunks of the node raises {type(e2).__name__}: {str(e2)[:120]} (so does transfer_bytes)")
        return f"transfer_bytes raised {type(e).__name__}: {str(e)[:120]}"
    if not (isinstance(tb, tuple) and len(tb) == 2):
        return f"transfer_bytes is not a pair: {tb!r}"
    lo, hi = tb
    try:
        lo_nan, hi_nan = (lo != lo), (hi != hi)
    except Exception:
        return f"transfer_bytes entries not numeric: {tb!r}"
    if lo_nan or hi_nan:
        known = True
        for n in [node] + [d for d in node.dependencies()]:
            try:
                if any(isinstance(s, float) and math.isnan(s) for dim in n.chunks for s in dim):
                    known = False
            except Exception:
                known = False
        if known:
            return f"transfer_bytes {tb!r} is NaN although all chunk sizes are known"
        return None
    if not (0 <= lo <= hi):
        return f"transfer_bytes {tb!r} violates 0 <= min <= max"
    tn = type(node).__name__
    if tn in ("RootAlias", "ChunksOverride", "ChunksFreeze", "Concatenate") and tb != (0, 0):
        if tn == "ChunksFreeze":
            return None
        return f"{tn}.transfer_bytes = {tb!r}, expected (0, 0)"
    if tn in ("Rechunk", "TasksRechunk"):
        try:
            src = node.dependencies()[0]
            if tuple(src.chunks) == tuple(node.chunks) and tb != (0, 0):
                return f"{tn} to identical chunks moves {tb!r}, expected (0, 0)"
        except Exception:
            pass
    return None


def judge_c27(y, ref, exact, check_dtype, out=None):
    try:
        ph = G.phases(y.expr)
    except Exception:
        ph = {"raw-unlowered": y.expr}
    ph["unlowered"] = y.expr
    try:
        ph["materialized"] = G.fresh(y)._lowered_expr
    except Exception:
        pass
    seen = set()
    for pname, ex in ph.items():
        for node in ex.walk():
            if id(node) in seen:
                continue
            seen.add(id(node))
            if out is not None:
                out.count("nodes_checked")
                out.dcount("node_types", type(node).__name__)
            err = _tb_err(node)
            if isinstance(err, tuple):
                return (err[0], type(node).__name__, f"[{pname}] {type(node).__name__}: {err[1]}")
            if err:
                return ("transfer-bytes", type(node).__name__, f"[{pname}] {type(node).__name__}: {err}")
    try:
        tb = y.transfer_bytes
    except NotImplementedError:
        return ("refused", "", "")
    except Exception as e:
        return ("transfer-bytes", "collection", f"Array.transfer_bytes raised {type(e).__name__}: {str(e)[:100]}")
    return None


JUDGES = {"C01": judge_c01, "C03": judge_c03, "C04": judge_c04, "C08": judge_c08, "C27": judge_c27}
