"""Helpers to take expressions through phases and execute/inspect graphs
with harness-owned machinery (no threaded scheduler)."""

from __future__ import annotations

import itertools
import math

import numpy as np


def fresh(y):
    """A new collection over the same raw expression (no per-collection caches)."""
    return type(y)(y.expr)


def lower_raw(expr):
    """Lower only (what ``array.optimize-graph=False`` does), private cache."""
    cache = {}
    while True:
        new = expr.lower_once(cache)
        if new._name == expr._name:
            return expr
        expr = new


def phases(expr):
    """raw-lowered, simplified(-lowered), lowered, fused forms of ``expr``."""
    raw = lower_raw(expr)
    simp = expr.simplify()
    low = lower_raw(simp)
    fused = low.fuse()
    return {"raw": raw, "simplified": simp, "lowered": low, "fused": fused}


def graph_of(expr):
    from dask._expr import Expr

    return Expr.__dask_graph__(expr)


def get_blocks(dsk, keys):
    """Execute with the synchronous scheduler; ``keys`` may be nested."""
    from dask.local import get_sync

    def tolist(b):
        return [tolist(x) for x in b] if isinstance(b, (list, tuple)) else b

    res = get_sync(dsk, keys)
    return tolist(res) if isinstance(keys, list) else res


def assemble(blocks):
    from dask_array._core_utils import finalize

    return finalize(blocks)


def exec_lowered(expr):
    """Execute a fully lowered expression as is: (nested blocks, assembled)."""
    dsk = graph_of(expr)
    keys = expr.__dask_keys__()
    blocks = get_blocks(dsk, keys)
    return blocks, assemble(blocks)


def flat_keys(keys):
    out = []

    def rec(k):
        if isinstance(k, list):
            for x in k:
                rec(x)
        else:
            out.append(k)

    rec(keys)
    return out


def flat_blocks(blocks):
    return flat_keys(blocks)


def expected_key_grid(name, numblocks):
    if not numblocks:
        return [(name,)]

    def rec(prefix, dims):
        if len(dims) == 1:
            return [(name,) + prefix + (i,) for i in range(dims[0])]
        return [rec(prefix + (i,), dims[1:]) for i in range(dims[0])]

    return rec((), tuple(numblocks))


def task_deps(dsk):
    """key -> set of dependency keys, via dask's own task spec conversion."""
    from dask._task_spec import convert_legacy_graph

    g = convert_legacy_graph(dict(dsk))
    return {k: set(v.dependencies) for k, v in g.items()}, g


def find_cycle(deps):
    """Kahn: returns None if acyclic else a list of keys on/behind a cycle."""
    indeg = {k: 0 for k in deps}
    rev = {k: [] for k in deps}
    for k, ds in deps.items():
        for d in ds:
            if d in deps:
                indeg[k] += 1
                rev[d].append(k)
    ready = [k for k, n in indeg.items() if n == 0]
    seen = 0
    while ready:
        k = ready.pop()
        seen += 1
        for c in rev[k]:
            indeg[c] -= 1
            if indeg[c] == 0:
                ready.append(c)
    if seen == len(deps):
        return None
    return [k for k, n in indeg.items() if n > 0][:5]


def block_shape_errors(y, blocks, chunks=None, dtype=None):
    """Compare every block's shape/dtype with the advertised chunks."""
    chunks = y.chunks if chunks is None else chunks
    dtype = y.dtype if dtype is None else dtype
    errs = []
    nb = tuple(len(c) for c in chunks)

    def at(b, idx):
        for i in idx:
            b = b[i]
        return b

    def count(b, depth):
        # nested list structure must match numblocks
        if depth == len(nb):
            return None
        if not isinstance(b, list) or len(b) != nb[depth]:
            return f"block list at depth {depth} has {len(b) if isinstance(b, list) else type(b).__name__} entries, advertised {nb[depth]}"
        for x in b:
            r = count(x, depth + 1)
            if r:
                return r
        return None

    if nb:
        r = count(blocks, 0)
        if r:
            return [r]
    for idx in itertools.product(*[range(n) for n in nb]):
        v = at(blocks, idx) if nb else (blocks[0] if isinstance(blocks, list) else blocks)
        want = tuple(chunks[ax][i] for ax, i in enumerate(idx))
        shp = np.shape(v)
        if len(shp) != len(want):
            errs.append(f"block {idx} has shape {shp}, advertised {want}")
            continue
        for s, w in zip(shp, want):
            if isinstance(w, float) and math.isnan(w):
                continue
            if s != w:
                errs.append(f"block {idx} has shape {shp}, advertised {want}")
                break
        dt = getattr(v, "dtype", None)
        if dt is not None and dtype is not None and dt != dtype:
            errs.append(f"block {idx} has dtype {dt}, advertised {dtype}")
        if len(errs) >= 3:
            break
    return errs
