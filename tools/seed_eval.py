#!/usr/bin/env python3
"""Run checks against a seeded mutation in a scratch worktree (never /repo).
Usage: seed_eval.py <name> <check-id>[,<check-id>...] [tier]  -> prints which checks report a VIOLATION."""
import json, os, subprocess, sys
name, checks = sys.argv[1], sys.argv[2].split(",")
tier = sys.argv[3] if len(sys.argv) > 3 else "quick"
d = f"/verif/seeded/{name}"
wt = f"/tmp/sv/eval-{name}"
subprocess.run(["git", "-C", "/repo", "worktree", "remove", "--force", wt], capture_output=True)
subprocess.run(["git", "-C", "/repo", "worktree", "add", "-q", "--detach", wt, "HEAD"], check=True)
out = {}
try:
    subprocess.run(["git", "-C", wt, "apply", f"{d}/patch.diff"], check=True)
    for c in checks:
        env = dict(os.environ, VERIF_REPO=wt, VERIF_EVIDENCE_DIR=f"/tmp/sv/ev-{name}", VERIF_REPLAY_DIR=f"/tmp/sv/rp-{name}")
        env.pop("_VERIF_REEXEC", None); env.pop("PYTHONPATH", None)
        p = subprocess.run(["/verif/check", c, "--tier", tier], cwd="/verif", env=env, capture_output=True, text=True, timeout=7200)
        viol = [l for l in p.stdout.splitlines() if l.startswith("VIOLATION")]
        sigs = [l.strip() for l in p.stdout.splitlines() if l.strip().startswith("signature:")]
        out[c] = {"exit": p.returncode, "violations": len(viol), "signatures": sigs[:6], "last": p.stdout.strip().splitlines()[-1:] }
        print(name, c, "exit", p.returncode, "violations", len(viol), sigs[:4], flush=True)
        if p.returncode not in (0, 1):
            print(p.stdout[-1500:], p.stderr[-1500:])
finally:
    subprocess.run(["git", "-C", "/repo", "worktree", "remove", "--force", wt], capture_output=True)
    subprocess.run(["rm", "-rf", f"/tmp/sv/ev-{name}", f"/tmp/sv/rp-{name}"])
res_path = f"{d}/detection.json"
prev = json.load(open(res_path)) if os.path.exists(res_path) else {}
prev.update({f"{c}:{tier}": out[c] for c in out})
json.dump(prev, open(res_path, "w"), indent=1)
