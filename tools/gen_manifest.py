#!/usr/bin/env python3
"""Regenerate MANIFEST.json from the table below (kept valid at all times)."""
import json, os
HERE = os.path.dirname(os.path.dirname(os.path.abspath(__file__)))
props = {json.loads(l)["id"]: json.loads(l) for l in open(os.path.join(HERE, "properties.jsonl"))}

CHECKS = {}
def chk(pid, engine, technique, text, note, design):
    CHECKS[pid] = dict(engine=engine, technique=technique, text=text, note=note, design=design)

exec(open(os.path.join(HERE, "tools", "manifest_table.py")).read())

NA = {
 "C22": "needs the native extension dask_array._rust; it cannot be built offline (pyo3 is absent from the cargo registry, no prebuilt .so), and a Python transliteration of the Rust layers would not be bound to the code (DESIGN §5)",
}
checks = []
for pid in sorted(CHECKS):
    c = CHECKS[pid]
    checks.append({
        "property_id": pid,
        "quick_cmd": f"./check {pid} --tier quick",
        "thorough_cmd": f"./check {pid} --tier thorough",
        "evidence_file": f"/verif/evidence/{pid}.json",
        "replay_cmd_template": f"./check {pid} --replay {{path}}",
        "engine": c["engine"],
        "level_claimed": {"category": "model_checking", "text": c["text"], "design_ref": c["design"]},
        "level_note": c["note"],
        "technique": c["technique"],
    })
na = [{"property_id": p, "reason": r} for p, r in sorted(NA.items())]
for pid in sorted(props):
    if pid not in CHECKS and pid not in NA:
        na.append({"property_id": pid, "reason": "check not built yet in this session (planned in DESIGN §4); not claimed until its check exists and is silent on the unchanged tree"})
m = {
 "version": 1,
 "setup_cmd": "/venv/bin/python -c \"import sys; sys.path.insert(0,'/repo'); import dask_array, numpy, dask; print('ok', dask_array.__file__)\"",
 "hooks": {"guard": "DASK_ARRAY_VERIF", "enable": "no in-repo hooks: all instrumentation is applied at run time from /verif by wrapping attributes of the imported modules (checks import /repo's working tree directly; editable install)", "baseline_off_cmd": "cd /repo && /venv/bin/python -m pytest -ra -q -p no:cacheprovider --timeout=900 --continue-on-collection-errors", "source_commits": [], "add_only": True},
 "engines": [
  {"name": "E1 program explorer", "path": "mc/explorer.py", "serves_properties": ["C01","C02","C03","C04","C08","C14","C18","C19","C20","C21","C23","C24","C27","C28","C29"], "kind_free_text": "explicit-state DFS/BFS over expression DAGs built through the public API with a NumPy reference per node"},
  {"name": "E2 pure-function enumerator", "path": "mc/checks", "serves_properties": ["C13","C15","C16","C17"], "kind_free_text": "complete enumeration of finite input spaces of planners against brute-force index arithmetic"},
  {"name": "E3 controlled scheduler", "path": "mc/sched.py", "serves_properties": ["C10"], "kind_free_text": "deviation-bounded stateless exploration of task orders with a whole-heap mutation monitor"},
  {"name": "E4 history explorer", "path": "mc/checks", "serves_properties": ["C05","C06","C09","C11"], "kind_free_text": "BFS over event histories on a live interpreter state"},
 ],
 "checks": checks,
 "not_applicable": na,
 "notes": "All checks: ./check <ID> --tier quick|thorough ; replay: ./check <ID> --replay <file>. Known findings: /verif/known_findings.json.",
}
json.dump(m, open(os.path.join(HERE, "MANIFEST.json"), "w"), indent=1)
print("checks:", [c["property_id"] for c in checks], "na:", [n["property_id"] for n in na])
