#!/usr/bin/env python3
"""Import an agent-produced mutation into /verif/seeded/<name>/ and confirm it:
patch applies to /repo HEAD, demo fails with it and passes without, the
repository's own suite still passes with it.  Usage: seed_import.py <srcdir> <k> <name>"""
import json, os, shutil, subprocess, sys
src, k, name = sys.argv[1], sys.argv[2], sys.argv[3]
dst = f"/verif/seeded/{name}"
os.makedirs(dst, exist_ok=True)
shutil.copy(f"{src}/m{k}.diff", f"{dst}/patch.diff")
shutil.copy(f"{src}/m{k}_demo.py", f"{dst}/demo.py")
meta = json.load(open(f"{src}/m{k}.json"))
wt = f"/tmp/sv/{name}"
subprocess.run(["git", "-C", "/repo", "worktree", "remove", "--force", wt], capture_output=True)
subprocess.run(["git", "-C", "/repo", "worktree", "add", "-q", "--detach", wt, "HEAD"], check=True)
res = {}
try:
    env = dict(os.environ, PYTHONPATH=wt, PYTHONHASHSEED="0")
    p = subprocess.run(["/venv/bin/python", f"{dst}/demo.py"], cwd=wt, env=env, capture_output=True, text=True, timeout=600)
    res["demo_without_change_exit"] = p.returncode
    a = subprocess.run(["git", "-C", wt, "apply", f"{dst}/patch.diff"], capture_output=True, text=True)
    res["applies"] = a.returncode == 0
    if a.returncode:
        res["apply_err"] = a.stderr[-500:]
    else:
        p = subprocess.run(["/venv/bin/python", f"{dst}/demo.py"], cwd=wt, env=env, capture_output=True, text=True, timeout=600)
        res["demo_with_change_exit"] = p.returncode
        res["demo_with_change_tail"] = (p.stdout + p.stderr)[-400:]
        if "--nosuite" not in sys.argv:
            # two xarray tests are order-dependent under xdist on the unchanged tree
            # (pre-existing flakiness); retry, and record what failed
            res["suite_runs"] = []
            for attempt in range(3):
                p = subprocess.run(["/venv/bin/python", "-m", "pytest", "-q", "-p", "no:cacheprovider", "--timeout=900", "-n", "6", "dask_array"], cwd=wt, env=env, capture_output=True, text=True, timeout=3000)
                tail = p.stdout.strip().splitlines()[-1] if p.stdout.strip() else p.stderr[-300:]
                failed = [l for l in p.stdout.splitlines() if l.startswith("FAILED")]
                res["suite_runs"].append({"tail": tail, "failed": failed[:6]})
                res["suite_tail"] = tail
                res["suite_exit"] = p.returncode
                if p.returncode == 0 or not all("test_xarray.py" in f for f in failed):
                    break
finally:
    subprocess.run(["git", "-C", "/repo", "worktree", "remove", "--force", wt], capture_output=True)
meta_out = {"breaks_property": meta.get("property"), "summary": meta.get("summary"), "needs": meta.get("needs"), "files": meta.get("files"), "agent_reported": {k2: meta.get(k2) for k2 in ("suite_result", "demo_with_change", "demo_without_change")}, "confirmed_by_me": res,
            "what_i_ran": "git worktree of /repo HEAD under /tmp/sv; demo.py without the patch (must exit 0), git apply patch.diff, demo.py with it (must exit != 0), full pytest suite with it (-n 6; must match the baseline 3654 passed + 1 xpassed)"}
ok = res.get("applies") and res.get("demo_without_change_exit") == 0 and res.get("demo_with_change_exit", 0) != 0 and (res.get("suite_exit", 0) == 0)
meta_out["kept"] = bool(ok)
json.dump(meta_out, open(f"{dst}/meta.json", "w"), indent=1)
print(name, "KEPT" if ok else "REJECTED", json.dumps(res)[:600])
