chk("C01", "E1 program explorer",
    "bounded exhaustive explicit-state exploration of API programs on the implementation, NumPy reference model per node",
    "Every program (ancestry DAG) up to depth 2 over the op alphabet (depth 3 on a compact alphabet) from every chunking of small sources is built through the real API, computed on the synchronous scheduler and compared with step-wise NumPy; the bounded space is enumerated completely, nothing is sampled.",
    "Trusted: NumPy as reference; small-scope bounds (axis <= 6, rank <= 3, depth <= 3); the op alphabet in mc/ops.py.",
    "DESIGN.md §4 C01")
chk("C03", "E1 program explorer",
    "bounded exhaustive program exploration; harness executes every block key of the real graph and compares with advertised chunks",
    "For every program of the bounded E1 space the task graph from __dask_graph__() is executed by the harness with optimize-graph on and off and every block key is fetched: block shape equals chunks at that index, block dtype equals dtype, the assembled result has the advertised shape/dtype.",
    "Trusted: dask's synchronous get; small-scope bounds as C01.",
    "DESIGN.md §4 C03")
chk("C04", "E1 program explorer",
    "bounded exhaustive program exploration with a structural graph invariant evaluated in every state",
    "For every program of the bounded E1 space, optimize-graph on and off: __dask_keys__ is the (name,*block) grid, the graph defines every advertised key and every dependency, is acyclic (Kahn), no key is defined by two layers with different tasks, and name/chunks/dtype/keys are unchanged by graph construction, optimize() and compute().",
    "Trusted: dependency extraction by dask._task_spec.convert_legacy_graph.",
    "DESIGN.md §4 C04")
chk("C08", "E1 program explorer",
    "bounded exhaustive program exploration; termination watchdog + idempotence invariant per state",
    "For every program of the bounded E1 space simplify/lower/fuse/optimize return (20 s watchdog), raise only if the unoptimized compute raises, and re-simplifying / re-optimizing (expression and collection level) keeps the name.",
    "Trusted: 20 s watchdog as the non-termination criterion.",
    "DESIGN.md §4 C08")
chk("C27", "E1 program explorer + E2",
    "bounded exhaustive program exploration (every node of every phase) plus complete enumeration of layout pairs for moved_fraction",
    "Every node of the unlowered, raw-lowered, simplified, lowered, fused and materialized trees of every program of the bounded E1 space has a well-formed transfer estimate (pair, 0<=min<=max, NaN only with unknown sizes, aliases and same-chunk rechunks move nothing).",
    "Trusted: small-scope bounds as C01.",
    "DESIGN.md §4 C27")
