chk("C01", "E1 program explorer",
    "bounded exhaustive explicit-state exploration of API programs on the implementation, NumPy reference model per node",
    "Every program (ancestry DAG) up to depth 2 over the op alphabet (depth 3 on a compact alphabet) from every chunking of small sources is built through the real API, computed on the synchronous scheduler and compared with step-wise NumPy; the bounded space is enumerated completely, nothing is sampled.",
    "Trusted: NumPy as reference; small-scope bounds (axis <= 6, rank <= 3, depth <= 3); the op alphabet in mc/ops.py.",
    "DESIGN.md §4 C01")
