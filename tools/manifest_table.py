chk("C01", "E1 program explorer",
    "bounded exhaustive explicit-state exploration of API programs on the implementation, NumPy reference model per node",
    "Every program (ancestry DAG) up to depth 2 over the op alphabet (depth 3 on a compact alphabet) from every chunking of small sources is built through the real API, computed on the synchronous scheduler and compared with step-wise NumPy; the bounded space is enumerated completely, nothing is sampled.",
    "Trusted: NumPy as reference; small-scope bounds (axis <= 6, rank <= 3, depth <= 3); the op alphabet in mc/ops.py.",
    "DESIGN.md §4 C01")
chk("C03", "E1 program explorer",
    "bounded exhaustive program exploration; harness executes every block key of the real graph and compares with advertised chunks",
    "For every program of the bounded E1 space the task graph from __dask_graph__() is executed by the harness with optimize-graph on and off and every block key is fetched: block shape equals chunks at that index, block dtype equals dtype, the assembled result has the advertised shape/dtype.",
    "Trusted: dask's synchronous get; small-scope bounds as C01.",
    "DESIGN.md §4 C03")
chk("C04", "E1 program explorer",
    "bounded exhaustive program exploration with a structural graph invariant evaluated in every state",
    "For every program of the bounded E1 space, optimize-graph on and off: __dask_keys__ is the (name,*block) grid, the graph defines every advertised key and every dependency, is acyclic (Kahn), no key is defined by two layers with different tasks, and name/chunks/dtype/keys are unchanged by graph construction, optimize() and compute().",
    "Trusted: dependency extraction by dask._task_spec.convert_legacy_graph.",
    "DESIGN.md §4 C04")
chk("C08", "E1 program explorer",
    "bounded exhaustive program exploration; termination watchdog + idempotence invariant per state",
    "For every program of the bounded E1 space simplify/lower/fuse/optimize return (20 s watchdog), raise only if the unoptimized compute raises, and re-simplifying / re-optimizing (expression and collection level) keeps the name.",
    "Trusted: 20 s watchdog as the non-termination criterion.",
    "DESIGN.md §4 C08")
chk("C27", "E1 program explorer + E2",
    "bounded exhaustive program exploration (every node of every phase) plus complete enumeration of layout pairs for moved_fraction",
    "Every node of the unlowered, raw-lowered, simplified, lowered, fused and materialized trees of every program of the bounded E1 space has a well-formed transfer estimate (pair, 0<=min<=max, NaN only with unknown sizes, aliases and same-chunk rechunks move nothing).",
    "Trusted: small-scope bounds as C01.",
    "DESIGN.md §4 C27")
chk("C13", "E2 pure-function enumerator",
    "complete enumeration of the helpers' finite input spaces against brute-force index arithmetic on range(n)",
    "fuse_slice over every pair of basic indices (ints, slices of all signs/steps, None; bare, tuple and rank-2 forms) for n<=6, normalize_slice/normalize_index over the same set plus lists and masks, _slice_1d/new_blockdim/_compute_sliced_chunks/_slice_chunks for every chunking of every n<=7 over the image of normalize_slice, _compose_slices over unit-step region nests of depth 3 -- all enumerated completely and compared with applying the indices to range(n).",
    "Trusted: NumPy indexing of arange as the oracle; helpers' contract domain = normalized input for the block planners.",
    "DESIGN.md §4 C13")
chk("C15", "E2 pure-function enumerator",
    "complete enumeration of (old,new) chunking pairs x planner parameters; plan invariants + crosswalk brute force + executing the real rechunk layer",
    "Every pair of chunkings of each small shape x itemsize x threshold x block-size limit x degree-limit goes through the real plan_rechunk; plan shape, budget, the old_to_new crosswalk of every step (each new block covered exactly once by contiguous in-bounds pieces) and the executed _compute_rechunk layer on labelled data are checked.",
    "Trusted: small shapes (n<=7, (4,4), (3,5), (2,2,3)); the budget formula is the one stated in the property.",
    "DESIGN.md §4 C15")
chk("C16", "E2 pure-function enumerator",
    "complete enumeration of chunk specifications x shapes x dtypes x limits x previous_chunks",
    "normalize_chunks is called on every combination of per-axis specs (ints, -1, None, 'auto', byte strings, explicit tuples, dicts) for shapes of rank <= 3 with dims 0..8, three dtypes, five limits, several previous_chunks and both tolerance settings; every accepted result is checked for validity, the byte limit on auto axes and the uniform-size rule.",
    "Trusted: array.chunk-size-tolerance is documented slack on the limit; raises are refusals; dict keys are non-negative (callers normalise axes).",
    "DESIGN.md §4 C16")
chk("C17", "E2 pure-function enumerator + value check",
    "complete enumeration of operand chunking pairs/triples x dtypes x policy x limit through unify_chunks_expr, plus computing x+y / blockwise against NumPy",
    "unify_chunks_expr is run on every pair of chunkings of a 1-D axis, every triple on a smaller axis, every pair of 2-D chunkings and every broadcast pattern under each policy and limit; common layout, refine-only-splits and the block-growth bound are checked on every result and elemwise/blockwise values are compared with NumPy.",
    "Trusted: limit None = unbounded; small shapes.",
    "DESIGN.md §4 C17")
chk("C12", "E1 (depth-1 exhaustive argument enumeration)",
    "complete enumeration of (chunking x index) on the real __getitem__/vindex/blocks against NumPy indexing",
    "Every 1-D index of IDX(n) (all ints, all slices with bounded start/stop/step, None/Ellipsis, int lists, masks, dask indexers under every indexer chunking, .blocks, indexing after an unknown-size mask) under every chunking of every n<=6 (plus layouts with zero-size blocks), and the 2-D cross product of per-axis index classes incl. .vindex and .blocks, is evaluated through the real API and compared with NumPy; out-of-bounds must raise.",
    "Trusted: NumPy indexing; documented NotImplementedError forms are refusals; dask's vindex puts the pointwise axis first.",
    "DESIGN.md §4 C12")
chk("C14", "E1 (depth-1/2 exhaustive argument enumeration)",
    "complete enumeration of (source chunking x target spec) and rechunk positions in short programs; chunks vs normalize_chunks, values vs NumPy, block layout",
    "Every source chunking x every accepted target spec goes through x.rechunk: chunks equal normalize_chunks of the resolved spec, values are unchanged and every block has the advertised size; the same with a rechunk placed at every position of short programs over elemwise/transpose/concatenate/expand_dims/slices/second rechunks.",
    "Trusted: normalize_chunks (C16) as the spec resolver; NumPy values.",
    "DESIGN.md §4 C14")
chk("C18", "E1 (depth <= 2 exhaustive argument enumeration)",
    "complete enumeration of reduction x chunking x axis set x keepdims x split_every x dtype x NaN placement against NumPy",
    "Every reduction of the family over every chunking of the small shapes, every axis subset, keepdims, split_every (int and per-axis dict), dtypes and NaN placements is computed through the real tree reduction and compared with NumPy, including arg-reduction ties, all-NaN slices, slices pushed through reductions, weighted average and topk.",
    "Trusted: NumPy; tolerance 1e-9 for inexact reductions.",
    "DESIGN.md §4 C18")
chk("C19", "E1 (depth-1 exhaustive argument enumeration)",
    "complete enumeration of (chunking x window/depth/boundary/method) for windows, overlaps and scans against NumPy definitions",
    "sliding_window_view alone and under every reducer for every n<=8, chunking and window; map_overlap under every boundary kind/depth against np.pad semantics; overlap+trim identity; bottleneck moving windows through map_overlap; diff/gradient; cumulative scans sequential and blelloch -- all enumerated completely on the implementation.",
    "Trusted: numpy.lib.stride_tricks.sliding_window_view, np.pad, bottleneck on the whole array as references.",
    "DESIGN.md §4 C19")
chk("C10", "E3 controlled scheduler",
    "deviation-bounded stateless exploration of all topological orders of the real task graphs under a harness-owned scheduler, with a whole-heap mutation monitor",
    "For every depth<=2 program over the in-place/view-suspect alphabet the optimized task graph is executed by the harness in every topological order with <= k deviations from the dask.order default (k = 0,1 quick; 0,1,2 thorough), each schedule on a fresh graph over a fresh source; after every task all live values and the source arrays are fingerprinted against before; the result must equal the default-order run and NumPy.",
    "Trusted: task granularity (no intra-kernel races); graphs above the task cap are skipped and counted; values are never released.",
    "DESIGN.md §4 C10")
chk("C11", "E4 history explorer",
    "exhaustive enumeration of all event histories up to length L on a live interpreter state with a NumPy copy-semantics reference model",
    "All histories of length <= 3 (4 on a compact alphabet) over {derivations, x[key]=value for every key/value kind, ufunc out=/where=, +=, compute/keys/graph/to_delayed/persist/pickle touches} are executed from the reset state; after each history every pool member computes to its reference, x's keys and to_delayed() agree with compute(), and the source arrays are unchanged.",
    "Trusted: NumPy with copy semantics at derivation as the reference model; a derivation returning the same object is an alias, not another collection; masked assignment only as the last mutation.",
    "DESIGN.md §4 C11")
chk("C02", "E1 program explorer + rewrite tracer",
    "bounded exhaustive program exploration; every phase executed as-is, every fired rewrite instance re-executed (before vs after), fusion provenance per output block",
    "For every program of the bounded E1 space (incl. shared subtrees and multi-leaf pools) the raw-lowered, simplified+lowered and fused forms are executed as they are and compared with NumPy and each other; every (before, after) pair produced by any _simplify_down/_simplify_up/_lower hook during optimization is executed by raw lowering and must denote the same array; for fused roots every output block must read the same external input blocks as in the unfused graph. Evidence lists fire counts per rule and the rules that never fired.",
    "Trusted: the 'before' expression evaluated by lowering without simplification; NumPy for phase values.",
    "DESIGN.md §4 C02")
chk("C05", "E1 program explorer + E4 follow-on histories",
    "bounded exhaustive program exploration; every entry point executed on every program, plus all length-2 histories (entry point, follow-on op)",
    "For every program root of the bounded space all ten entry points (x.compute, dask.compute alone / with a sibling sharing the subtree, x.persist, dask.persist alone / with sibling, dask.optimize, x.optimize, to_delayed, np.asarray) are executed and compared with NumPy; returned collections must keep name/keys/chunks/dtype; each of 12 follow-on ops applied to each returned collection must equal NumPy.",
    "Trusted: synchronous scheduler; NumPy reference.",
    "DESIGN.md §4 C05")
chk("C06", "E4 history explorer (long-lived processes) + constructor log",
    "exhaustive enumeration of the bounded program space inside long-lived interpreter states (all collections kept alive, several program orders), with name->metadata and key->value registries checked on every sighting",
    "Each of several independent long-lived processes builds every depth<=2 program over a parameter-variant alphabet (siblings differing in one parameter a tokenizer or hand-built name could drop: slices, axes, keepdims, split_every, weights, seeds, sibling SeedSequences, rechunk options, kwargs) in its own order and keeps everything alive; every program is compared with NumPy (random arrays with values from a clean subprocess), every node name must always carry the same shape/chunks/dtype, and every graph key must always carry the same block value.",
    "Trusted: NumPy / clean-subprocess values adjudicate substitutions; within-process only (cross-process determinism is C07).",
    "DESIGN.md §4 C06")
chk("C09", "E4 history explorer",
    "exhaustive enumeration of (program x configuration x placement) and of all event histories up to length L from a reset interpreter state",
    "Every program of a 20-program set is computed under every configuration of the optimizer/planner keys (quick: one-at-a-time plus all pairs; thorough: the full cross product) set at construction, at compute time, or both; and all histories of length <= 3 (4 on one pool in thorough) over build/compute/graph/persist/drop+gc of programs sharing subtrees and configuration changes are replayed from a reset state (registries and _LOWER_CACHE cleared); every compute must equal NumPy.",
    "Trusted: reset = clearing SingletonExpr registries and _LOWER_CACHE + gc.collect(); NumPy reference.",
    "DESIGN.md §4 C09")
chk("C07", "E6 cross-process comparator",
    "exhaustive enumeration of the bounded program space in several fresh interpreters (different PYTHONHASHSEED) with table diff, plus a cloudpickle round trip of every collection into another fresh interpreter",
    "Every depth<=2 program is built in three fresh interpreters (hash seeds 0, 1, random) and twice within each: name, keys, sorted optimized graph keys, chunks, dtype and frisky output keys must agree everywhere; every collection is cloudpickled in one interpreter and loaded in the same and in another fresh interpreter: name, keys, chunks, dtype, frisky output keys unchanged and the value equals NumPy; an untokenizable source keeps its per-instance name.",
    "Trusted: dask.tokenize for callables (module-level functions only); scratch under /verif/.scratch.",
    "DESIGN.md §4 C07")
chk("C20", "E1 (depth-3 exhaustive pre/fn/post enumeration)",
    "complete enumeration of post(map_blocks(recording_fn, pre(x))) programs over every chunking, with the arguments observed inside the user function compared with the layout advertised at call time",
    "Every combination of producer (rechunks, slices, concatenate, take, elemwise of differently chunked leaves, sliding-window reductions, cumsum, reshape, broadcast, transpose, reductions, diff, roll), recording function (block_info, block_id, both, explicit chunks=, two inputs, new_axis, drop_axis) and consumer (slices, rechunk, reduction, elemwise with sibling, take, concatenate) over every chunking of (6,) and (3,4) is computed; each invocation's chunk-location, array-location, chunk-shape, num-chunks, shape and received block shape must equal pre(x).chunks as advertised when map_blocks was called; values equal NumPy.",
    "Trusted: calls on empty blocks (meta inference) are ignored; culled blocks need not be invoked.",
    "DESIGN.md §4 C20")
chk("C21", "E1 program explorer + in-process record executor",
    "bounded exhaustive program exploration; the task records of every program are executed by a harness executor and compared block by block with the dask graph",
    "For every program of the depth<=2 space __frisky_graph__() and __frisky_records_chunks__() either decline or produce records whose keys are consistent, dependencies produced and declared, acyclic, covering every __frisky_output_keys__() key, and whose execution (TaskRefs resolved in nested containers) gives the same block values as __dask_graph__(); groups of three collections sharing subtrees walked with one shared `seen` set must form a complete graph with the same values.",
    "Trusted: dask graph block values as reference (its own defects are judged by C01/C04); generic GraphRecordsLayer only (no native extension).",
    "DESIGN.md §4 C21")
chk("C23", "E1 program explorer + E4 order histories",
    "bounded exhaustive exploration of programs derived from random sources, with the first computed realization as the reference model, plus recompute/rebuild/reseed/pickle checks and all compute orders of parent and child",
    "For every generator kind x distribution (incl. array-valued parameters, choice, permutation) x shape/chunking the array is computed once; every depth<=2 derived program must equal the NumPy op on that realization; recomputing, rebuilding with the same seed (same name and values), pickling, and reseeding (different values) are checked on every source, and parent/child are recomputed in both orders twice.",
    "Trusted: the first realization as reference; synchronous scheduler.",
    "DESIGN.md §4 C23")
chk("C24", "E1 (chains up to length 3, exhaustive)",
    "complete enumeration of (source kind x storage grid x getter options x requested chunking x chain of <= 3 slice/index/rechunk/elemwise/transpose steps) over a recording array-like",
    "Every chain of up to three steps on from_array(source, chunks=c) for recording array-likes with and without a storage grid, lock, fancy=False, custom getitem, inline_array, asarray=False -- and plain ndarrays with the deferred-region path forced -- is computed: the result equals NumPy indexing of the source and every logged read request stays within the source's bounds and is non-fancy when fancy=False.",
    "Trusted: the recording array-like stands in for zarr/h5py stores (not installed); the harness sets _NUMPY_SLICE_PUSHDOWN_NBYTES_LIMIT=0 for ndarray sources.",
    "DESIGN.md §4 C24")
chk("C25", "E1 (depth-1 exhaustive argument enumeration)",
    "complete enumeration of (chunking x region offset x lock x compute x return_stored/load_stored x pairs x target kind) for da.store and of (chunking x axis) for the npy-stack round trip",
    "Every combination is executed against sentinel-filled targets larger than the source: target[region] equals the source, everything else keeps the sentinel, write requests stay inside the target, returned/loaded arrays equal the source; to_npy_stack/from_npy_stack round-trips every chunking and axis.",
    "Trusted: scratch directory under /verif/.scratch; load_stored=False with compute=False returns per-chunk targets by documentation (targets only are judged).",
    "DESIGN.md §4 C25")
chk("C28", "E1 (depth-2 exhaustive argument enumeration)",
    "complete enumeration of (producer x mask x chunking x follow-on op) with and without compute_chunk_sizes, true block sizes read from the executed graph",
    "For every data-dependent producer (NumPy and dask masks incl. every mask for n<=4, x[x>k], unique, nonzero, flatnonzero, argwhere, 2-D row/column/full masks) over every chunking: compute_chunk_sizes() must set exactly the sizes of the executed blocks, the shape must equal NumPy's and every follow-on op must equal NumPy; without it every follow-on op must either raise or return NumPy's value and shape.",
    "Trusted: any exception is an acceptable refusal while sizes are unknown.",
    "DESIGN.md §4 C28")
chk("C29", "E1 program explorer with recording sources and recording user functions",
    "bounded exhaustive program exploration; a data-access log is inspected after every construction step and after every metadata accessor",
    "Every depth<=2 program over recording array-like sources (several from_array option sets) and recording user functions (map_blocks with/without dtype, map_overlap, blockwise, reduction) is built and then put through 27 accessors (shape ... repr, _repr_html_, transfer_bytes, pprint, simplify, optimize, __dask_graph__, explain, chunk_report, to_delayed, frisky keys); after each step the logs must show no non-empty __getitem__, no __array__ and no user-function call on real data; a final compute must register reads.",
    "Trusted: one-element probes holding 0/1/NaN are dask's fake data for dtype/meta inference, not user data (sources hold values >= 10).",
    "DESIGN.md §4 C29")
chk("C26", "E5 import-state explorer (fork snapshots)",
    "breadth-first explicit-state search over import/registration events from a pristine interpreter, each transition executed in a forked child of the process holding the parent state; invariant evaluated in every reached state",
    "States (set of loaded dask_array modules, xarray loaded, private module loaded, register() in history) are expanded once: the history is replayed in a fresh interpreter and every event (import of the package / each of the ~155 submodules / xarray, register(), isactive(), import of the private module) runs in a forked child that then probes xarray's chunk manager: built-in unless register() occurred, ours and isactive() afterwards, isactive() never imports the private module; states without xarray get a closing 'import xarray' probe. Second half: ~1600 depth<=2 xarray programs on registered dask_array-backed objects equal the NumPy-backed results.",
    "Trusted: a module body runs once (futures depend on the set of bodies run); quick expands level 2 over core events only, thorough over all events to depth 3.",
    "DESIGN.md §4 C26")
